#!/bin/bash
# usage: try_patch.sh <patch-file> <ID> -- applies to /repo, runs the quick check, reverts
P=$(realpath "$1"); ID="$2"
git -C /repo diff --quiet || { echo "/repo has local changes"; exit 2; }
git -C /repo apply --3way "$P" >/dev/null 2>&1 || { echo "$P: patch does not apply"; git -C /repo reset -q --hard HEAD; exit 2; }
cd /verif && ./run.sh "$ID" quick > out/try_patch.log 2>&1; code=$?
git -C /repo reset -q --hard HEAD
echo "$(basename $(dirname $P)) $ID exit=$code $(grep -a -m1 'signature:' out/try_patch.log)"
