#!/bin/bash
# Re-runs every seeded change and every hand-written mutant against the current
# HEAD of /repo and the current checks WITHOUT touching /repo: a scratch git
# worktree of /repo and a scratch copy of /verif (engine pointed at the
# worktree, own target dir) under /var/tmp/rc, removed at the end.
# usage: tools/recheck_all.sh [filter-regex]   -> /verif/out/recheck.log
F="${1:-.}"
RC=/var/tmp/rc
LOG=/verif/out/recheck.log; : > $LOG
rm -rf $RC/verif $RC/target; mkdir -p $RC
git -C /repo worktree remove --force $RC/repo 2>/dev/null
git -C /repo worktree add --detach $RC/repo HEAD -q || exit 2
rsync -a --exclude engine/target --exclude out --exclude .git /verif/ $RC/verif/
sed -i "s#path = \"/repo\"#path = \"$RC/repo\"#" $RC/verif/engine/Cargo.toml
grep -q "$RC/repo" $RC/verif/engine/Cargo.toml || { echo "cannot repoint engine"; exit 2; }
export VERIF_DIR=$RC/verif CARGO_TARGET_DIR=$RC/target
run() { # id
  (cd $RC/verif/engine && cargo build --offline > $RC/build.log 2>&1) || { echo "exit=2 (build)"; return; }
  $RC/target/debug/vp check $1 quick > $RC/check.out 2>&1
  echo "exit=$? $(grep -a -m1 'signature:' $RC/check.out)"
}
one() { # kind name id patch
  if git -C $RC/repo apply --3way "$4" >/dev/null 2>&1; then
    echo "$1 $2 $3 $(run $3)" >> $LOG
  else
    echo "$1 $2 $3 PATCH-DOES-NOT-APPLY" >> $LOG
  fi
  git -C $RC/repo reset -q --hard HEAD
}
for d in /verif/seeded/*/; do
  n=$(basename $d); echo "$n" | grep -Eq "$F" || continue
  id=$(python3 -c "import json;print(json.load(open('$d/meta.json'))['property'])")
  one seeded $n $id $d/patch.diff
done
for p in /verif/mutants/*.patch; do
  n=$(basename $p .patch); echo "$n" | grep -Eq "$F" || continue
  one mutant $n ${n%%-*} $p
done
git -C /repo worktree remove --force $RC/repo
rm -rf $RC
echo DONE >> $LOG
