#!/usr/bin/env python3
"""Regenerates /verif/MANIFEST.json from the table below (kept in one place so
the manifest stays valid and in step with the engine)."""
import json, os
ROOT = os.path.dirname(os.path.dirname(os.path.abspath(__file__)))
ALL = ["C%02d" % i for i in range(1, 21)]
CHECKS = {
  "C15": dict(
    technique="property-based testing against a reference model (proptest): ModuleGraph::walk vs a set-based reachability model over the graph's recorded dependencies, all 36 option combinations per graph",
    text="Generated-input search with a reference-model oracle: the yielded set (both inclusions, no duplicates), the entry attached to each yielded specifier and the multiset of reported errors are compared with engine/src/refwalk.rs for every option combination, drawn root subsets and skip sets. Exploration: bounded by the generated graphs.",
    design_ref="DESIGN.md §4 C15",
    note="Trusted: proptest; the reference walk (written from the WalkOptions rustdoc and the statement); graphs come from the shared world generator.",
  ),
  "C18": dict(
    technique="property-based metamorphic + differential testing (proptest): segment(R) vs the original graph (every dependency lookup, validation, error listing) and vs build(R)",
    text="Generated-input search with two oracles: (a) metamorphic self-containment - every dependency of every module of the segment resolves (both type preferences) to the same module or error as in the original, same validation verdicts and error listings from the segment roots; (b) differential - entries, redirects and serialised modules equal a direct build of the segment roots when those were not roots of the original. Exploration only.",
    design_ref="DESIGN.md §4 C18",
    note="Trusted: proptest and the harness loader. Known findings (context-sensitive acceptance of unknown/JSON answers, source-map assets) are listed in known_findings.json; domain restrictions are in the evidence assumptions.",
  ),
  "C19": dict(
    technique="property-based testing over generated histories (proptest): sequences of build() calls, rebuilds and edit+reload() rounds vs from-scratch builds",
    text="Generated histories (partition of the roots into successive builds, rebuild of a known root, up to three rounds of source edits each followed by reload of the changed specifiers) checked against a from-scratch build of the same / the edited sources: equal entries, serialised modules and redirects for everything the fresh graph contains, untouched entries byte-identical, no loads and no change when a known root is built again. Exploration only.",
    design_ref="DESIGN.md §4 C19",
    note="Trusted: proptest and the harness loader. Worlds carry no `type` attributes or source-map URLs (the attribute class of a target must be stable over time); context-sensitive acceptance divergences are known findings.",
  ),
  "C17": dict(
    technique="property-based differential testing (proptest): build(All)+prune_types vs build(CodeOnly) over generated module worlds",
    text="Generated-input search with a differential oracle: for each generated world the pruned full graph is compared with an independent code-only build on entries, redirects, code edges, validation verdict and error listing. Exploration only: absence of counterexamples inside the generated bounds, not a proof.",
    design_ref="DESIGN.md §4 C17",
    note="Trusted: proptest, the harness loader/renderer (engine/src/world.rs, harness.rs); domain restrictions listed in the evidence assumptions (same-attribute proviso by construction, no redirect cycles, default is_dynamic/skip_dynamic_deps).",
  ),
}
NOT_YET = "check not built yet in this round (planned in DESIGN.md §4); not claimed until its machinery exists and is silent on the unchanged tree"
def main():
  checks = []
  for pid in ALL:
    if pid not in CHECKS: continue
    c = CHECKS[pid]
    checks.append({
      "property_id": pid,
      "quick_cmd": f"./run.sh {pid} quick",
      "thorough_cmd": f"./run.sh {pid} thorough",
      "evidence_file": f"/verif/evidence/{pid}.json",
      "replay_cmd_template": f"engine/target/debug/vp replay {pid} {{path}}",
      "engine": "vp",
      "level_claimed": {"category": c.get("category", "exploration"), "text": c["text"], "design_ref": c["design_ref"]},
      "level_note": c["note"],
      "technique": c["technique"],
    })
  m = {
    "version": 1,
    "setup_cmd": "cd engine && CARGO_NET_OFFLINE=true cargo build --offline",
    "hooks": {
      "guard": "--cfg denoland_deno_graph_verif (reserved; no hook is needed: every observation point is a caller-implemented trait or public API)",
      "enable": "none required; checks build /repo as a path dependency with default features",
      "baseline_off_cmd": "cd /repo && cargo nextest run --workspace --no-fail-fast --tool-config-file pb:/w/lib/nextest.toml --profile pb --test-threads 8 --offline || cargo test --workspace --no-fail-fast --offline",
      "source_commits": [],
      "add_only": True,
    },
    "engines": [{
      "name": "vp",
      "path": "engine",
      "serves_properties": sorted(CHECKS.keys()),
      "kind_free_text": "Rust crate: proptest-driven generators, reference models and differential/metamorphic oracles over deno_graph (path dependency on /repo); worker processes, shrinking, replay files, evidence writer",
    }],
    "checks": checks,
    "notes": "Exit 0 = held on everything explored, 1 = VIOLATION line, 2 = harness problem (never a violation). Known findings: /verif/known_findings.json.",
    "not_applicable": [{"property_id": p, "reason": NOT_YET} for p in ALL if p not in CHECKS],
  }
  json.dump(m, open(os.path.join(ROOT, "MANIFEST.json"), "w"), indent=1)
  print("wrote MANIFEST.json with", len(checks), "checks")
main()
