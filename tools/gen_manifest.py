#!/usr/bin/env python3
"""Regenerates /verif/MANIFEST.json from the table below (kept in one place so
the manifest stays valid and in step with the engine)."""
import json, os
ROOT = os.path.dirname(os.path.dirname(os.path.abspath(__file__)))
ALL = ["C%02d" % i for i in range(1, 21)]
CHECKS = {
  "C08": dict(
    technique="property-based testing with a recording generator (proptest): the source generator records every dependency it writes with its byte range; the analyser's report must equal the record; position lookup through a one-module graph; round trip of every reported range over the repository's spec corpus, a metamorphic trivia-insertion layer over mutated corpus sources, and (thorough tier) a coverage-guided libFuzzer target with the range round-trip oracle inside",
    text="Generated programs over every dependency-bearing form for 11 media types (incl. CommonJS flavours and .d.mts / .d.cts) with non-ASCII / astral trivia, CRLF, shebang, comment-only modules, escapes, templates, nesting in functions / classes / namespaces / declare-module blocks, pragma styles and JSDoc forms. Oracles: the multiset of reported dependencies (kind, cooked text, attributes, dynamic argument shape, types pragma) equals the record - every one once, nothing else; each reported range converted with an independent line/character counter equals the recorded byte range; Dependency::includes finds exactly the owning dependency and its range for positions inside a site; corpus layer: the source slice at every reported range is the specifier; mutated-corpus layer (metamorphic): inserting trivia (a comment line with non-ASCII / astral / U+2028 text, a comment before an import or export statement, a shebang, CR before every LF) into a corpus source leaves the reported dependencies unchanged and moves every reported range by exactly the bytes inserted before it. Exploration only.",
    design_ref="DESIGN.md §4 C08",
    note="Trusted: the generator's own bookkeeping of byte offsets; swc as the parser on the implementation side only.",
  ),
  "C09": dict(
    technique="property-based testing (proptest) with a TypeScript package generator and validity predicates on the re-parsed output (scope analysis), plus the same predicates over the repository's fast-check spec corpus",
    text="Generated registry packages and workspace members (modules in nested directories; declarations of every kind and many shapes - generics with constraint and default, heritage with type arguments, overloads, parameter properties, private constructors, accessors, expando properties, annotated function expressions; private/exported; reference chains across declarations, namespaces and files placed in signature or implementation positions; qualified names, import types, star / by-name / namespace re-exports in every module, imports through re-exporting modules) run through build + build_fast_check_type_graph. Oracles on each emitted module: parses under the source's media type; every identifier that resolved to a module-level binding in the original and is unresolved in the output is a violation; every import / re-export names a grounded export of the emitted counterpart (least fixpoint over the emitted modules); every relative specifier resolves to a graph module; the source map decodes, every token maps inside the original text, and each identifier token maps onto the same identifier text. Corpus layer: the same predicates over every package of tests/specs/graph/fast_check. Exploration only.",
    design_ref="DESIGN.md §4 C09",
    note="Trusted: deno_ast/swc parser and scope analysis on the observing side; the sourcemap decoder (engine/src/props/c09.rs, hand written VLQ). Known findings (private member of an ambient class; a name requested inside a cycle of re-exports) are keyed by signature.",
  ),
  "C10": dict(
    technique="property-based testing (proptest) with a grammar over emitted ASTs: every node of every emitted module must be derivable from the 'declaration-only, explicitly typed' grammar, else a diagnostic must exist; generated packages plus the spec corpus",
    text="Generated packages whose public API mixes annotated, inferable and non-inferable declarations over every declaration and member kind (functions, overloads, arrow/fn initialisers, classes with ctor/param props/decorated ctor params/accessors incl. TypeScript-private ones/private/#private/decorators, enums, namespaces, default exports, destructuring). Oracle: visitor over the emitted AST accepting only empty or single-placeholder bodies, declarations at statement level, literal-like or fully annotated function initialisers, explicit parameter and return types, `any`-typed TS-private members, no #private, no decorators; a package without output must carry diagnostics on every entrypoint. Exploration only.",
    design_ref="DESIGN.md §4 C10",
    note="Trusted: swc parser on the observing side; the grammar (engine/src/props/c10.rs) is the property statement transcribed.",
  ),
  "C11": dict(
    technique="property-based metamorphic testing (proptest): the recording TypeScript generator knows the intended public API; emitted vs original export sets, declaration kinds and span-insensitive signature projections are compared; generated packages plus the spec corpus",
    text="Oracles: entrypoints export exactly the original names (incl. default and resolved star re-exports), other modules a subset; each retained exported declaration keeps its kind; type annotations, type parameters, heritage clauses, constructor signatures, parameter properties (as the property declarations they become) and public member signatures equal the source's under span-insensitive comparison modulo the optional/default-parameter normalisation; a namespace that is public as a whole keeps every exported member; declarations the generator recorded as neither exported nor referenced from the public API are absent. Exploration only.",
    design_ref="DESIGN.md §4 C11",
    note="Trusted: the generator's record of exported / referenced declarations (engine/src/tsgen.rs), swc EqIgnoreSpan.",
  ),
  "C12": dict(
    technique="stateful property-based testing (proptest): generated histories of (build, fast check with shared cache, edit a source, rebuild) compared step by step against cache-less runs and repeated runs",
    text="Generated worlds of 1-3 registry packages (each optionally depending on the next through a star re-export, a by-name re-export or an imported type; imported by the root or reachable only through the dependent; several entrypoints; passing and failing), histories of 3-7 steps with edits toggling annotation / export / kind of one declaration or the root import of a package. After every fast-check step: all-or-nothing per package (all public modules emitted and no entrypoint diagnostic, or none emitted and every entrypoint carries diagnostics); recorded dependencies equal those declared by the emitted text; cached (cold / warm / stale) output equals cache-less output on emitted set, text, dependencies and source maps; two cache-less runs identical. Exploration only.",
    design_ref="DESIGN.md §4 C12",
    note="Trusted: the in-memory FastCheckCache of the harness (engine/src/fc.rs MemCache stores what it is given, keyed as requested).",
  ),
  "C13": dict(
    technique="property-based round-trip and differential testing (proptest): ModuleInfo -> JSON -> ModuleInfo on analyser-produced values (thorough tier: also inside a coverage-guided libFuzzer target over arbitrary parsable text); moduleGraph1 rendering upgraded vs the moduleGraph2 original; registry built from embedded module info vs from parsing",
    text="(a) every ModuleInfo the analyser produces from generated programs round-trips through its JSON form (equality and fixed point); (b) the legacy rendering of the same value (types specifier replaced by the leading comment) upgrades to the same @deno-types text and range (empty attribute clauses and leading comments included); (c) generated registries published with moduleGraph2 computed by this analyser vs without, with a cache image deciding cached/uncached content per file and (40%) text / bytes asset imports between package files, under all graph kinds: equal serialised graph, source texts and errors. Exploration only.",
    design_ref="DESIGN.md §4 C13",
    note="Trusted: serde_json; the registry materialiser (engine/src/registry.rs).",
  ),
  "C05": dict(
    technique="property-based testing with log invariants (proptest): every Loader::load / ensure_cached call and every Locker call of a build over generated remote + registry worlds and lockfile images is checked against the expected-checksum table",
    text="Generated worlds: a remote entry module importing remote modules on every load path (static, dynamic, text asset, type-only, redirecting URL, declaration file, http:, UTF-8 BOM, UTF-16 with charset) plus jsr: requirements and https://jsr.io/ URLs of a generated registry (with / without embedded module info and cache image); lockfile entries per URL and per version manifest absent / matching / mismatching; registry files optionally tampered. Oracles: each content-consuming call presents the known checksum; rejected content is never a module, is an integrity error, with exactly one cache-bypassing retry for non-registry URLs and none for registry files; checksummed redirect rejected; new remote modules and every version manifest the build loaded recorded with SHA-256 of the served bytes (or lockfileChecksum), never with two different values; existing entries never overwritten. Exploration only.",
    design_ref="DESIGN.md §4 C05",
    note="Trusted: the harness loader's checksum verification (LoaderChecksum::check_source) and call logs; sha2.",
  ),
  "C06": dict(
    technique="exhaustive enumeration of a bounded domain plus property-based testing (proptest) against a reference model of the four-tier selection rule; graph level as a left fold of the model over the import order",
    text="Function level: JsrPackageVersionResolver::resolve_version vs the stated rule, enumerated completely for all version sets of <= 2 (thorough: 3) versions x yanked x date classes x already-selected sets x cached sets x 7 cut-off/exclusion settings x 15 requirements (millions of evaluations), sampled beyond. Graph level: generated registries, lockfile seeds, cut-off, exclusions, prefer-cached with a cache image, static and dynamic jsr: imports, version tags; mappings, redirects, used yanked packages and error entries must equal the fold of the model. The enumerated sub-space is exhaustive; the rest is exploration.",
    design_ref="DESIGN.md §4 C06",
    note="Trusted: deno_semver (parsing, ordering, matches). The model (select_version in engine/src/props/c06.rs) is the property statement transcribed.",
  ),
  "C07": dict(
    technique="property-based testing (proptest) against a reference computation over generated registries: redirects, used exports, per-package dependency sets, package URL round trip",
    text="Generated registries (package names that are prefixes of one another, prerelease versions, exports as string / map / with non-string values, files importing by relative path, jsr:, npm:, https registry URL, statically / dynamically / as types) and importing programs; for every jsr: specifier the redirect equals package_url(mapping).join(export value) or an UnknownExport error listing exactly the string exports; package_exports and packages_with_deps equal the reference; package_url <-> name@version round-trips, no graph URL is attributed to another package, and look-alike URLs of every package file (other host or scheme, registry host as a prefix, path under a prefix, other spellings of the version) are attributed exactly as an independent re-statement says. Exploration only.",
    design_ref="DESIGN.md §4 C07",
    note="Trusted: deno_semver specifier parsing; the dependency sets are derived from the graph's recorded dependencies (validated by C01).",
  ),
  "C01": dict(
    technique="property-based testing against a reference model (proptest): recorded dependencies vs what the structured sources declare; per-entry prediction from the world; model-free closure (nothing unreachable present, nothing reachable absent)",
    text="Worlds are generated as structured sources (the model never parses text). For every built graph: (a) each module's dependency map (text, code/type target, attribute, static-vs-dynamic, import kinds, types dependency, source map) equals engine/src/refmodel.rs under the resolver and graph kind in use; (b) every entry's kind is one the world allows (exactly predicted for targets whose every request carries the attribute type json: JSON is a module, anything else an assertion error) and every redirect is one the loader gave; (c) every entry is reachable from roots/configured imports along followed edges and every followed target has an entry. Exploration only; jsr: specifiers are left to C06/C07.",
    design_ref="DESIGN.md §4 C01",
    note="Trusted: the reference model (DESIGN Appendix A.2), deno_path_util URL resolution, deno_media_type media-type mapping, the renderer. Context-sensitive acceptance through two requests is a known finding.",
  ),
  "C02": dict(
    technique="property-based testing (proptest) with two reference oracles: world truth for code validation (reachability over source-declared dependencies) and the reference walk for the error listing under all 36 option sets",
    text="Failure-rich generated worlds. valid() and walk(code, follow_dynamic).validate() must fail iff a failing entry, failed resolution, https->http import or remote->file:// import is reachable along the edges the sources declare; the reported error must be one of those; the full error listing equals the reference walk for every option combination (a tenth of the cases: registry-package graphs after fast check with a missing implementation-only import, so the fast-check preference matters); every error range is a dependency range of its referrer. Exploration only.",
    design_ref="DESIGN.md §4 C02",
    note="Trusted: refmodel.rs, refwalk.rs; entry states are taken from the graph (C01 validates them against the world).",
  ),
  "C20": dict(
    technique="property-based testing against a reference decoder (proptest): stored text, original bytes and size vs a WHATWG-transcribed decoder over generated byte strings x charset labels x module shapes",
    text="Generated byte strings (UTF-8/UTF-16LE/BE/windows-1252 encodings of text with BOM variants, inserted invalid bytes, truncation) served under 15 charset labels or none, as local/remote JSON roots, TypeScript roots, attributed JSON imports and (plain UTF-8 with or without BOM) files of a JSR package with / without embedded module information; a share of the remote cases is delivered by the retry after a checksum failure. Stored text must equal the reference decoding with the BOM removed, unsupported labels must give a decode error and no module, try_get_original_bytes() is None or the exact supplied bytes, serialised size = text byte length. Exploration only.",
    design_ref="DESIGN.md §4 C20",
    note="Trusted: the reference decoder in engine/src/props/c20.rs (covers exactly the generated labels). Quoted charset parameters are not generated.",
  ),
  "C03": dict(
    category="fault_enumeration",
    technique="fault injection driven by property-based generation (proptest) plus exhaustive single-fault enumeration on small worlds; invariant, fault->error and metamorphic isolation oracles",
    text="Every load call of the fault-free build is a fault position. Exhaustive layer: for base worlds with <= 7 load calls every (call x fault kind) single fault is injected; sampled layer: plans of 0-4 faults on larger worlds plus npm resolver failures, a generated registry (faults on package metadata, version manifests, files, deferred content loads of files with embedded module information, the registry entry added by a second build()). Oracles: no panic / no hang (watchdog), no pending entry in the serialised graph, every fired missing/error fault has an error entry with a referrer, a package file answered with a redirect has the error under its own entry, an injected npm failure is an error entry with a referrer (a failing requirement everywhere, a dependency-graph failure behind dynamic-only imports), and every module that does not depend on a faulted specifier is byte-identical to the fault-free build.",
    design_ref="DESIGN.md §4 C03",
    note="Trusted: harness loader and fault plan (engine/src/harness.rs); the dependence closure of the isolation relation (DESIGN §4 C03). The cache-only probe is answered 'not cached' or from a cache image, never faulted itself.",
  ),
  "C04": dict(
    technique="schedule exploration with a harness-owned scheduler: proptest-generated completion orders, re-runs with fresh hasher state, and exhaustive stateless DFS over all completion orders of small worlds; differential oracle against the identity schedule",
    text="The loader's futures are gates released one at a time by the harness, so the interleaving is an input. Each world is built once ungated and then under drawn schedules and repeated runs; serialised graph, every error with its referrer, and lockfile writes must be identical. A share of the worlds has code loads that wait behind outstanding text-asset loads of the same files and are issued together later. Exhaustive layer: all completion orders of small worlds (budgeted; evidence reports whether every tree was finished). More than half of the worlds carry a generated jsr registry (metadata, manifests, prefer-cached probing, packages sharing a failing npm dependency).",
    design_ref="DESIGN.md §4 C04",
    note="Trusted: the gate scheduler (engine/src/harness.rs::drive) and the pass-through executor (task interleavings beyond load completion order are not explored).",
  ),
  "C14": dict(
    technique="property-based metamorphic testing (proptest): every lookup API vs what walk([s]) reaches, over generated redirect chains, cycles, lockfile-seeded and loader-followed redirects",
    text="Generated redirect topologies (chains up to 16 hops around the loader limit, cycles of every length, failures at the tail, loader-followed hops, lockfile seeds incl. stale ones) with the oracle 'all lookups agree with the walk': resolve idempotent, get / contains / try_get / specifiers / try_get_prefer_types / resolve_dependency compared with the first non-redirect entry walk([s]) yields. Termination by watchdog. Exploration only.",
    design_ref="DESIGN.md §4 C14",
    note="Trusted: ModuleGraph::walk as the reference for lookups (that is what the property states); the chain generator.",
  ),
  "C15": dict(
    technique="property-based testing against a reference model (proptest): ModuleGraph::walk vs a set-based reachability model over the graph's recorded dependencies, all 36 option combinations per graph",
    text="Generated-input search with a reference-model oracle: the yielded set (both inclusions, no duplicates), the entry attached to each yielded specifier and the multiset of reported errors are compared with engine/src/refwalk.rs for every option combination, drawn root subsets and skip set; a walk that does not return (hang while the walk runs, confirmed in a fresh process) is a violation; a quarter of the graphs are generated registry packages on which fast check has run (fast-check dependency maps). Exploration: bounded by the generated graphs.",
    design_ref="DESIGN.md §4 C15",
    note="Trusted: proptest; the reference walk (written from the WalkOptions rustdoc and the statement); graphs come from the shared world generator.",
  ),
  "C18": dict(
    technique="property-based metamorphic + differential testing (proptest): segment(R) vs the original graph (every dependency lookup, validation, error listing) and vs build(R)",
    text="Generated-input search with two oracles: (a) metamorphic self-containment - every dependency of every module of the segment resolves (both type preferences) to the same module or error as in the original, same validation verdicts and error listings from the segment roots, the same package-table answers for what its modules import; (b) differential - entries, redirects and serialised modules equal a direct build of the segment roots when those were not roots of the original. Segment roots include redirect sources; some graphs are registry packages after fast check. Exploration only.",
    design_ref="DESIGN.md §4 C18",
    note="Trusted: proptest and the harness loader. Known findings (context-sensitive acceptance of unknown/JSON answers, source-map assets) are listed in known_findings.json; domain restrictions are in the evidence assumptions.",
  ),
  "C19": dict(
    technique="property-based testing over generated histories (proptest): sequences of build() calls, rebuilds and edit+reload() rounds vs from-scratch builds",
    text="Generated histories (partition of the roots into successive builds, rebuild of a known root, up to three rounds of source edits each followed by reload of the changed specifiers, named by their final specifier or by the head of a recorded redirect chain) checked against a from-scratch build of the same / the edited sources: equal entries, serialised modules and redirects for everything the fresh graph contains, untouched entries byte-identical, no change when a known root is built again; a generated registry added by a later build() equals the at-once build in graph and per-package dependency sets (a tenth of the cases); every other history shares one capturing analyser (parsed-source cache) between its builds and reloads. Exploration only.",
    design_ref="DESIGN.md §4 C19",
    note="Trusted: proptest and the harness loader. Worlds carry no source-map URLs and `type` attributes only in two structural sub-domains (JSON targets every importer requests as json; code modules of a fixed class every importer requests as text / bytes assets and that may also be roots: the attribute class of a target must be stable over time); context-sensitive acceptance divergences are known findings.",
  ),
  "C16": dict(
    technique="property-based testing (proptest) with a multi-module TypeScript program generator: validity predicate over every symbol table, reference fixpoint of the resolved export set from an independent AST walk, termination and answer shape of go-to-definition under a watchdog; plus the symbols / graph spec corpus",
    text="Generated programs of 1-7 modules (ts/tsx/d.ts/mts, JSON) with every declaration kind, declaration merging, overloads, nested / dotted / ambient namespaces, class static / instance / private / computed members, interface members, expando properties, import / export aliases, import-equals, every default-export form, star and namespace re-exports with self loops and cycles; shared name pools force own / star / alias name collisions. Oracles: every export / child / member id exists, one root, parents exist, definition symbols are listed exactly once by their parent as child xor member, nothing is reachable over two paths, every declaration carries the symbol's name and a range inside the module text; own exports equal the export statements read by an independent walk; ModuleInfoRef::exports equals the least fixpoint own + (star \\ default) and every star-resolved name lands, hop by hop over existing star edges, on a module that owns it without passing over an own export; find_definition_paths / go_to_definitions_or_unresolveds from every symbol and resolve_symbol_dep of every declaration dependency terminate and end in definitions (or `* as` markers) inside the named module or in explicit unresolved markers. Exploration only; a hang or panic confirmed in a fresh process is a violation.",
    design_ref="DESIGN.md §4 C16",
    note="Trusted: swc / deno_ast as parser for the independent export walk; ModuleGraph::resolve_dependency for star edges (covered by C08/C14); the runner's watchdog for 'finite time'.",
  ),
  "C17": dict(
    technique="property-based differential testing (proptest): build(All)+prune_types vs build(CodeOnly) over generated module worlds",
    text="Generated-input search with a differential oracle: for each generated world the pruned full graph is compared with an independent code-only build on entries, redirects, code edges, validation verdict and error listing. Exploration only: absence of counterexamples inside the generated bounds, not a proof.",
    design_ref="DESIGN.md §4 C17",
    note="Trusted: proptest, the harness loader/renderer (engine/src/world.rs, harness.rs); domain restrictions listed in the evidence assumptions (same-attribute proviso by construction, no redirect cycles, default is_dynamic/skip_dynamic_deps).",
  ),
}
NOT_YET = "check not built yet in this round (planned in DESIGN.md §4); not claimed until its machinery exists and is silent on the unchanged tree"
def main():
  checks = []
  for pid in ALL:
    if pid not in CHECKS: continue
    c = CHECKS[pid]
    checks.append({
      "property_id": pid,
      "quick_cmd": f"./run.sh {pid} quick",
      "thorough_cmd": f"./run.sh {pid} thorough",
      "evidence_file": f"/verif/evidence/{pid}.json",
      "replay_cmd_template": f"engine/target/debug/vp replay {pid} {{path}}",
      "engine": "vp",
      "level_claimed": {"category": c.get("category", "exploration"), "text": c["text"], "design_ref": c["design_ref"]},
      "level_note": c["note"],
      "technique": c["technique"],
    })
  m = {
    "version": 1,
    "setup_cmd": "cd engine && CARGO_NET_OFFLINE=true cargo build --offline",
    "hooks": {
      "guard": "--cfg denoland_deno_graph_verif (reserved; no hook is needed: every observation point is a caller-implemented trait or public API)",
      "enable": "none required; checks build /repo as a path dependency with default features",
      "baseline_off_cmd": "cd /repo && cargo nextest run --workspace --no-fail-fast --tool-config-file pb:/w/lib/nextest.toml --profile pb --test-threads 8 --offline || cargo test --workspace --no-fail-fast --offline",
      "source_commits": [],
      "add_only": True,
    },
    "engines": [{
      "name": "vp",
      "path": "engine",
      "serves_properties": sorted(CHECKS.keys()),
      "kind_free_text": "Rust crate: proptest-driven generators, reference models and differential/metamorphic oracles over deno_graph (path dependency on /repo); worker processes, shrinking, replay files, evidence writer",
    }, {
      "name": "fz_analyze",
      "path": "fuzz",
      "serves_properties": ["C08", "C13"],
      "kind_free_text": "cargo-fuzz / libFuzzer target (nightly toolchain, offline) with the C08 range round-trip and the C13 JSON round-trip oracles inside; run on top of the proptest layers by `run.sh C08|C13 thorough` through tools/fuzz_layer.sh, seeded from the generators and the spec corpus; its executions are added to the evidence of the thorough run",
    }],
    "checks": checks,
    "notes": "Exit 0 = held on everything explored, 1 = VIOLATION line, 2 = harness problem (never a violation). Known findings: /verif/known_findings.json.",
    "not_applicable": [{"property_id": p, "reason": NOT_YET} for p in ALL if p not in CHECKS],
  }
  json.dump(m, open(os.path.join(ROOT, "MANIFEST.json"), "w"), indent=1)
  print("wrote MANIFEST.json with", len(checks), "checks")
main()
