#!/usr/bin/env python3
"""Regenerates /verif/MANIFEST.json from the table below (kept in one place so
the manifest stays valid and in step with the engine)."""
import json, os
ROOT = os.path.dirname(os.path.dirname(os.path.abspath(__file__)))
ALL = ["C%02d" % i for i in range(1, 21)]
CHECKS = {
  "C03": dict(
    category="fault_enumeration",
    technique="fault injection driven by property-based generation (proptest) plus exhaustive single-fault enumeration on small worlds; invariant, fault->error and metamorphic isolation oracles",
    text="Every load call of the fault-free build is a fault position. Exhaustive layer: for base worlds with <= 7 load calls every (call x fault kind) single fault is injected; sampled layer: plans of 0-4 faults on larger worlds plus npm resolver failures. Oracles: no panic / no hang (watchdog), no pending entry in the serialised graph, every fired missing/error fault has an error entry with a referrer, and every module that does not depend on a faulted specifier is byte-identical to the fault-free build. Registry metadata faults are not injected yet.",
    design_ref="DESIGN.md §4 C03",
    note="Trusted: harness loader and fault plan (engine/src/harness.rs). Faults on registry metadata / content loads and the cache-only probe are not covered yet (no registry in these worlds).",
  ),
  "C04": dict(
    technique="schedule exploration with a harness-owned scheduler: proptest-generated completion orders, re-runs with fresh hasher state, and exhaustive stateless DFS over all completion orders of small worlds; differential oracle against the identity schedule",
    text="The loader's futures are gates released one at a time by the harness, so the interleaving is an input. Each world is built once ungated and then under drawn schedules and repeated runs; serialised graph, every error with its referrer, and lockfile writes must be identical. Exhaustive layer: all completion orders of small worlds (budgeted; evidence reports whether every tree was finished). Worlds have no jsr registry yet.",
    design_ref="DESIGN.md §4 C04",
    note="Trusted: the gate scheduler (engine/src/harness.rs::drive) and the pass-through executor. jsr metadata loads (the FuturesUnordered / HashMap-ordered parts) are not exercised until registry worlds are added.",
  ),
  "C14": dict(
    technique="property-based metamorphic testing (proptest): every lookup API vs what walk([s]) reaches, over generated redirect chains, cycles, lockfile-seeded and loader-followed redirects",
    text="Generated redirect topologies (chains up to 16 hops around the loader limit, cycles of every length, failures at the tail, loader-followed hops, lockfile seeds incl. stale ones) with the oracle 'all lookups agree with the walk': resolve idempotent, get / contains / try_get / specifiers / try_get_prefer_types / resolve_dependency compared with the first non-redirect entry walk([s]) yields. Termination by watchdog. Exploration only.",
    design_ref="DESIGN.md §4 C14",
    note="Trusted: ModuleGraph::walk as the reference for lookups (that is what the property states); the chain generator.",
  ),
  "C15": dict(
    technique="property-based testing against a reference model (proptest): ModuleGraph::walk vs a set-based reachability model over the graph's recorded dependencies, all 36 option combinations per graph",
    text="Generated-input search with a reference-model oracle: the yielded set (both inclusions, no duplicates), the entry attached to each yielded specifier and the multiset of reported errors are compared with engine/src/refwalk.rs for every option combination, drawn root subsets and skip sets. Exploration: bounded by the generated graphs.",
    design_ref="DESIGN.md §4 C15",
    note="Trusted: proptest; the reference walk (written from the WalkOptions rustdoc and the statement); graphs come from the shared world generator.",
  ),
  "C18": dict(
    technique="property-based metamorphic + differential testing (proptest): segment(R) vs the original graph (every dependency lookup, validation, error listing) and vs build(R)",
    text="Generated-input search with two oracles: (a) metamorphic self-containment - every dependency of every module of the segment resolves (both type preferences) to the same module or error as in the original, same validation verdicts and error listings from the segment roots; (b) differential - entries, redirects and serialised modules equal a direct build of the segment roots when those were not roots of the original. Exploration only.",
    design_ref="DESIGN.md §4 C18",
    note="Trusted: proptest and the harness loader. Known findings (context-sensitive acceptance of unknown/JSON answers, source-map assets) are listed in known_findings.json; domain restrictions are in the evidence assumptions.",
  ),
  "C19": dict(
    technique="property-based testing over generated histories (proptest): sequences of build() calls, rebuilds and edit+reload() rounds vs from-scratch builds",
    text="Generated histories (partition of the roots into successive builds, rebuild of a known root, up to three rounds of source edits each followed by reload of the changed specifiers) checked against a from-scratch build of the same / the edited sources: equal entries, serialised modules and redirects for everything the fresh graph contains, untouched entries byte-identical, no loads and no change when a known root is built again. Exploration only.",
    design_ref="DESIGN.md §4 C19",
    note="Trusted: proptest and the harness loader. Worlds carry no `type` attributes or source-map URLs (the attribute class of a target must be stable over time); context-sensitive acceptance divergences are known findings.",
  ),
  "C17": dict(
    technique="property-based differential testing (proptest): build(All)+prune_types vs build(CodeOnly) over generated module worlds",
    text="Generated-input search with a differential oracle: for each generated world the pruned full graph is compared with an independent code-only build on entries, redirects, code edges, validation verdict and error listing. Exploration only: absence of counterexamples inside the generated bounds, not a proof.",
    design_ref="DESIGN.md §4 C17",
    note="Trusted: proptest, the harness loader/renderer (engine/src/world.rs, harness.rs); domain restrictions listed in the evidence assumptions (same-attribute proviso by construction, no redirect cycles, default is_dynamic/skip_dynamic_deps).",
  ),
}
NOT_YET = "check not built yet in this round (planned in DESIGN.md §4); not claimed until its machinery exists and is silent on the unchanged tree"
def main():
  checks = []
  for pid in ALL:
    if pid not in CHECKS: continue
    c = CHECKS[pid]
    checks.append({
      "property_id": pid,
      "quick_cmd": f"./run.sh {pid} quick",
      "thorough_cmd": f"./run.sh {pid} thorough",
      "evidence_file": f"/verif/evidence/{pid}.json",
      "replay_cmd_template": f"engine/target/debug/vp replay {pid} {{path}}",
      "engine": "vp",
      "level_claimed": {"category": c.get("category", "exploration"), "text": c["text"], "design_ref": c["design_ref"]},
      "level_note": c["note"],
      "technique": c["technique"],
    })
  m = {
    "version": 1,
    "setup_cmd": "cd engine && CARGO_NET_OFFLINE=true cargo build --offline",
    "hooks": {
      "guard": "--cfg denoland_deno_graph_verif (reserved; no hook is needed: every observation point is a caller-implemented trait or public API)",
      "enable": "none required; checks build /repo as a path dependency with default features",
      "baseline_off_cmd": "cd /repo && cargo nextest run --workspace --no-fail-fast --tool-config-file pb:/w/lib/nextest.toml --profile pb --test-threads 8 --offline || cargo test --workspace --no-fail-fast --offline",
      "source_commits": [],
      "add_only": True,
    },
    "engines": [{
      "name": "vp",
      "path": "engine",
      "serves_properties": sorted(CHECKS.keys()),
      "kind_free_text": "Rust crate: proptest-driven generators, reference models and differential/metamorphic oracles over deno_graph (path dependency on /repo); worker processes, shrinking, replay files, evidence writer",
    }],
    "checks": checks,
    "notes": "Exit 0 = held on everything explored, 1 = VIOLATION line, 2 = harness problem (never a violation). Known findings: /verif/known_findings.json.",
    "not_applicable": [{"property_id": p, "reason": NOT_YET} for p in ALL if p not in CHECKS],
  }
  json.dump(m, open(os.path.join(ROOT, "MANIFEST.json"), "w"), indent=1)
  print("wrote MANIFEST.json with", len(checks), "checks")
main()
