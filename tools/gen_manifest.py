#!/usr/bin/env python3
"""Regenerates /verif/MANIFEST.json from the table below (kept in one place so
the manifest stays valid and in step with the engine)."""
import json, os
ROOT = os.path.dirname(os.path.dirname(os.path.abspath(__file__)))
ALL = ["C%02d" % i for i in range(1, 21)]
CHECKS = {
  "C17": dict(
    technique="property-based differential testing (proptest): build(All)+prune_types vs build(CodeOnly) over generated module worlds",
    text="Generated-input search with a differential oracle: for each generated world the pruned full graph is compared with an independent code-only build on entries, redirects, code edges, validation verdict and error listing. Exploration only: absence of counterexamples inside the generated bounds, not a proof.",
    design_ref="DESIGN.md §4 C17",
    note="Trusted: proptest, the harness loader/renderer (engine/src/world.rs, harness.rs); domain restrictions listed in the evidence assumptions (same-attribute proviso by construction, no redirect cycles, default is_dynamic/skip_dynamic_deps).",
  ),
}
NOT_YET = "check not built yet in this round (planned in DESIGN.md §4); not claimed until its machinery exists and is silent on the unchanged tree"
def main():
  checks = []
  for pid in ALL:
    if pid not in CHECKS: continue
    c = CHECKS[pid]
    checks.append({
      "property_id": pid,
      "quick_cmd": f"./run.sh {pid} quick",
      "thorough_cmd": f"./run.sh {pid} thorough",
      "evidence_file": f"/verif/evidence/{pid}.json",
      "replay_cmd_template": f"engine/target/debug/vp replay {pid} {{path}}",
      "engine": "vp",
      "level_claimed": {"category": c.get("category", "exploration"), "text": c["text"], "design_ref": c["design_ref"]},
      "level_note": c["note"],
      "technique": c["technique"],
    })
  m = {
    "version": 1,
    "setup_cmd": "cd engine && CARGO_NET_OFFLINE=true cargo build --offline",
    "hooks": {
      "guard": "--cfg denoland_deno_graph_verif (reserved; no hook is needed: every observation point is a caller-implemented trait or public API)",
      "enable": "none required; checks build /repo as a path dependency with default features",
      "baseline_off_cmd": "cd /repo && cargo nextest run --workspace --no-fail-fast --tool-config-file pb:/w/lib/nextest.toml --profile pb --test-threads 8 --offline || cargo test --workspace --no-fail-fast --offline",
      "source_commits": [],
      "add_only": True,
    },
    "engines": [{
      "name": "vp",
      "path": "engine",
      "serves_properties": sorted(CHECKS.keys()),
      "kind_free_text": "Rust crate: proptest-driven generators, reference models and differential/metamorphic oracles over deno_graph (path dependency on /repo); worker processes, shrinking, replay files, evidence writer",
    }],
    "checks": checks,
    "notes": "Exit 0 = held on everything explored, 1 = VIOLATION line, 2 = harness problem (never a violation). Known findings: /verif/known_findings.json.",
    "not_applicable": [{"property_id": p, "reason": NOT_YET} for p in ALL if p not in CHECKS],
  }
  json.dump(m, open(os.path.join(ROOT, "MANIFEST.json"), "w"), indent=1)
  print("wrote MANIFEST.json with", len(checks), "checks")
main()
