#!/bin/bash
# dev aid: every check's thorough tier (proptest layers; the libFuzzer layer of
# C08 / C13 is run by run.sh only) under the given seeds, from a snapshot copy
# of /verif under /var/tmp/sw so that /verif can be edited meanwhile. The
# snapshot builds against /repo's working tree (which must stay unmodified).
# usage: thorough_sweep.sh <logfile> <tier> <seed>...
LOG=$1; TIER=$2; shift 2
SW=/var/tmp/sw
mkdir -p $SW
rsync -a --delete --exclude engine/target --exclude out --exclude .git --exclude seeded --exclude mutants /verif/ $SW/verif/
export VERIF_DIR=$SW/verif CARGO_TARGET_DIR=$SW/target CARGO_NET_OFFLINE=true
(cd $SW/verif/engine && cargo build --offline > $SW/build.log 2>&1) || { echo "build failed" >> $LOG; exit 2; }
for s in "$@"; do
  for i in $(seq -w 1 20); do
    VERIF_SEED=$s VERIF_TIER=$TIER $SW/target/debug/vp check C$i $TIER 2>&1 | grep -a "$TIER:\|VIOLATION\|signature\|HARNESS" | cut -c1-300 | sed "s/^/[seed $s] /" >> $LOG
  done
done
echo "sweep done" >> $LOG
