#!/usr/bin/env python3
"""mkmutant.py <name> <file> <<< JSON {"old": "...", "new": "..."}  -> writes /verif/mutants/<name>.patch
The edit is applied to /repo, captured with git diff, and reverted."""
import sys, json, subprocess
name, path = sys.argv[1], sys.argv[2]
spec = json.load(sys.stdin)
full = '/repo/' + path
s = open(full).read()
assert s.count(spec['old']) == 1, f"old text occurs {s.count(spec['old'])} times"
open(full, 'w').write(s.replace(spec['old'], spec['new']))
diff = subprocess.run(['git', '-C', '/repo', 'diff'], capture_output=True, text=True).stdout
subprocess.run(['git', '-C', '/repo', 'checkout', '--', '.'], check=True)
open(f'/verif/mutants/{name}.patch', 'w').write(diff)
print('wrote', name, len(diff.splitlines()), 'lines')
