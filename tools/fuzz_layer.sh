#!/bin/bash
# usage: fuzz_layer.sh <ID> <runs-per-job> <seed>
# Coverage-guided layer of the thorough tier of C08 / C13: libFuzzer target
# fuzz/fuzz_targets/fz_analyze.rs (oracles in fuzz/src/lib.rs), seeded with the
# module sources of the repository's spec corpus, 8 jobs.
# exit 0 = nothing found, 1 = VIOLATION printed, 3 = layer unavailable (the
# toolchain could not build or run the target; never a violation).
ID="$1"; RUNS="${2:-50000}"; SEED="${3:-0}"
V="$(cd "$(dirname "$0")/.." && pwd)"
OUT=$V/out/fuzz/$ID; rm -rf "$OUT"; mkdir -p "$OUT/corpus" "$OUT/artifacts" "$OUT/logs"
"$V/engine/target/debug/vp" fuzzseed "$OUT/corpus" > "$OUT/seed.log" 2>&1 || { echo "FUZZ-LAYER: unavailable (cannot write the seed corpus)"; exit 3; }
cd "$V" || exit 3
if ! CARGO_NET_OFFLINE=true timeout 2400 cargo +nightly fuzz build --fuzz-dir "$V/fuzz" fz_analyze > "$OUT/build.log" 2>&1; then
  echo "FUZZ-LAYER: unavailable (cargo +nightly fuzz build failed, see $OUT/build.log)"; exit 3
fi
cd "$OUT/logs" || exit 3
# libFuzzer: seed 0 means random, so shift by one
CARGO_NET_OFFLINE=true timeout 3600 cargo +nightly fuzz run --fuzz-dir "$V/fuzz" fz_analyze "$OUT/corpus" -- \
  -runs="$RUNS" -seed=$((SEED + 1)) -max_len=16384 -len_control=0 -timeout=60 -rss_limit_mb=4096 \
  -jobs=8 -workers=8 -artifact_prefix="$OUT/artifacts/" -print_final_stats=1 > "$OUT/run.log" 2>&1
code=$?
execs=$(cat "$OUT"/logs/fuzz-*.log 2>/dev/null | grep -a "stat::number_of_executed_units" | awk '{s+=$2} END {print s+0}')
units=$(ls "$OUT/corpus" | wc -l)
found=0
for a in "$OUT"/artifacts/*; do
  [ -f "$a" ] || continue
  case "$(basename "$a")" in
    crash-*)
      sig=$(grep -a -h -m1 "VIOLATION-SIG:" "$OUT"/logs/fuzz-*.log | head -1)
      if [ -n "$sig" ]; then
        mkdir -p "$V/out/replays/$ID"; cp "$a" "$V/out/replays/$ID/fuzz-$(basename "$a")"
        echo "VIOLATION property=$ID replay=$V/out/replays/$ID/fuzz-$(basename "$a")"
        echo "  $sig"
        echo "  (replay: cd $V/fuzz && cargo run --offline --no-default-features --bin fz_replay -- <file>)"
        found=1
      else
        echo "FUZZ-LAYER: a crash without an oracle verdict (sanitizer / abort) was saved to $a; not a violation of $ID" >&2
      fi
      ;;
    *) echo "FUZZ-LAYER: $(basename "$a") (timeout / oom of libFuzzer) is not a violation" >&2 ;;
  esac
done
python3 - "$ID" "$execs" "$units" "$RUNS" "$SEED" "$code" "$V" <<'PY'
import json,sys
pid,execs,units,runs,seed,code,v=sys.argv[1:8]
p=f'{v}/evidence/{pid}.json'
try:
    e=json.load(open(p))
except Exception:
    sys.exit(0)
c=e['coverage']
c['fuzz_executions']=int(execs)
c['fuzz_corpus_units']=int(units)
c.setdefault('notes',[]).append(f"libFuzzer layer: target fz_analyze (range round trip of C08 and JSON round trip of C13 on arbitrary parsable input), 8 jobs x {runs} runs, seed {seed}, seeded with the spec corpus: {execs} executions, corpus grew to {units} units, exit status {code}")
json.dump(e,open(p,'w'),indent=1)
PY
echo "FUZZ-LAYER $ID: executions=$execs corpus_units=$units libfuzzer_exit=$code"
[ $found -eq 1 ] && exit 1
exit 0
