#!/bin/bash
# usage: try_seeded.sh <seeded-dir> [ID]  -- applies the patch to /repo, runs the owning quick check, reverts
D=$(realpath "$1")
ID="${2:-$(python3 -c "import json;print(json.load(open('$D/meta.json'))['property'])")}"
git -C /repo diff --quiet || { echo "/repo has local changes"; exit 2; }
git -C /repo apply --3way "$D/patch.diff" >/dev/null 2>&1 || { echo "$(basename $D): patch does not apply"; git -C /repo reset -q --hard HEAD; exit 2; }
cd /verif && ./run.sh "$ID" quick > out/try_seeded.log 2>&1; code=$?
git -C /repo reset -q --hard HEAD
echo "$(basename $D) $ID exit=$code $(grep -a -m1 'signature:' out/try_seeded.log)"
