#!/usr/bin/env python3
"""usage: record_round.py <prefix> <first-try-log> <confirm-log> [notes.json] [final-try-log]
Writes check_result / confirmed_by_builder into seeded/<prefix>*/meta.json from
the logs of tools/try_seeded.sh (first run) and tools/confirm_seeded.sh (final
state, scratch worktree)."""
import json, sys, re, os, glob
prefix, first_log, confirm_log = sys.argv[1:4]
notes = json.load(open(sys.argv[4])) if len(sys.argv) > 4 else {}
final_log = sys.argv[5] if len(sys.argv) > 5 else None
final = {}
if final_log:
    for l in open(final_log, errors='replace'):
        m = re.match(r'(\S+) (C\d\d) exit=(\d+)\s*(?:signature: (.*))?', l)
        if m: final[m.group(1)] = (m.group(2), int(m.group(3)), (m.group(4) or '').strip() or None)
root = os.path.dirname(os.path.dirname(os.path.abspath(__file__)))
first = {}
for l in open(first_log, errors='replace'):
    m = re.match(r'(\S+) (C\d\d) exit=(\d+)\s*(?:signature: (\S+))?', l)
    if m: first[m.group(1)] = (int(m.group(3)), m.group(4))
conf = {}
for l in open(confirm_log, errors='replace'):
    m = re.match(r'(\S+): demo-clean=(\d+) suite-with-patch=(\d+) lib=(\d+) demo-with-patch=(\d+) check\[(C\d\d)\]=(\S+)\s*(?:signature: (\S+))?', l)
    if m: conf[m.group(1)] = m.groups()[1:]
for d in sorted(glob.glob(os.path.join(root, 'seeded', prefix + '*'))):
    name = os.path.basename(d)
    key = re.sub(r'[^A-Za-z0-9]', '_', name)
    mp = os.path.join(d, 'meta.json')
    meta = json.load(open(mp))
    c = conf.get(key)
    f = first.get(name)
    if not c:
        fin = final.get(name)
        if not fin:
            print('no result for', name); continue
        owner, code, sig = fin
        cr = {
          'status': 'caught' if code == 1 else 'missed',
          'first_signature': sig,
          'command': f'git -C /repo apply patch.diff && ./run.sh {owner} quick (then reverted; tools/try_seeded.sh)',
        }
        if f is not None:
            cr['first_run'] = 'caught (owner check exit 1)' if f[0] == 1 else ('harness error (owner check exit 2)' if f[0] == 2 else 'missed (owner check exit 0)')
        if name in notes:
            cr['note'] = notes[name]
        meta['check_result'] = cr
        meta['confirmed_by_builder'] = ('patch applied to the current tree and the owning quick check run by the builder (tools/try_seeded.sh); '
          'the demonstration and the test-suite runs are as reported by the author of the change in "ran", the builder\'s own re-run in a scratch worktree (tools/confirm_seeded.sh) did not get to this change before the end of the round')
        json.dump(meta, open(mp, 'w'), indent=1, ensure_ascii=False)
        print(name, cr['status'], sig, '(not re-confirmed)')
        continue
    clean, suite, lib, demo, owner, chk, sig = c
    caught = chk == '1'
    cr = {
      'status': 'caught' if caught else 'missed',
      'first_signature': sig,
      'command': f'owning quick check ({owner}) built against a scratch worktree with patch.diff applied (tools/confirm_seeded.sh)',
    }
    if f is not None:
        cr['first_run'] = 'caught (owner check exit 1)' if f[0] == 1 else 'missed (owner check exit 0)'
    if name in notes:
        cr['note'] = notes[name]
    meta['check_result'] = cr
    meta['confirmed_by_builder'] = (f'tools/confirm_seeded.sh in a scratch worktree (/var/tmp/cs): demo without patch exit={clean}; '
      f'with the patch `cargo test --lib --test integration_test` exit={suite}, lib crate tests exit={lib}, demo exit={demo}'
      f'{" (fails)" if demo != "0" else " (DOES NOT FAIL)"}; owning quick check exit={chk}')
    json.dump(meta, open(mp, 'w'), indent=1, ensure_ascii=False)
    print(name, cr['status'], sig)
