#!/bin/bash
# usage: confirm_seeded.sh <seeded-dir>...
# For each seeded change (patch.diff, demo.rs, meta.json) confirms, in a scratch
# git worktree of /repo under /var/tmp/cs (never in /repo itself), that
#  (1) the demo passes without the patch,
#  (2) with the patch the repository's tests still pass and the demo fails,
# then builds a scratch copy of the engine against that patched worktree and
# runs the owning quick check. One result line per change on stdout; details in
# <seeded-dir>/confirm.log and <seeded-dir>/check.log. The scratch area is kept
# between invocations for incremental builds; remove it with
#   git -C /repo worktree remove --force /var/tmp/cs/repo; rm -rf /var/tmp/cs
CS=/var/tmp/cs
mkdir -p $CS
if [ ! -d $CS/repo ]; then
  git -C /repo worktree add --detach $CS/repo HEAD -q || exit 2
fi
git -C $CS/repo checkout -q --detach "$(git -C /repo rev-parse HEAD)" || exit 2
rsync -a --delete --exclude engine/target --exclude out --exclude .git --exclude seeded /verif/ $CS/verif/
sed -i "s#path = \"/repo\"#path = \"$CS/repo\"#" $CS/verif/engine/Cargo.toml
grep -q "$CS/repo" $CS/verif/engine/Cargo.toml || { echo "cannot repoint engine"; exit 2; }
ARGS=()
for D in "$@"; do ARGS+=("$(realpath "$D")"); done
for D in "${ARGS[@]}"; do
  ID=$(python3 -c "import json;print(json.load(open('$D/meta.json'))['property'])")
  NAME=$(basename "$D" | tr -c 'A-Za-z0-9\n' '_')
  LOG="$D/confirm.log"; : > "$LOG"
  cd $CS/repo || exit 2
  git reset -q --hard HEAD; git clean -q -fd tests
  cp "$D/demo.rs" "tests/seeded_demo_$NAME.rs"
  echo "== demo without patch" >> "$LOG"
  cargo test --offline --test "seeded_demo_$NAME" >> "$LOG" 2>&1; clean=$?
  if ! git apply --3way "$D/patch.diff" >> "$LOG" 2>&1; then
    echo "$NAME: patch does not apply"; git reset -q --hard HEAD; git clean -q -fd tests; continue
  fi
  git reset -q   # keep the patch in the working tree only
  echo "== suite with patch" >> "$LOG"
  cargo test --offline --lib --test integration_test >> "$LOG" 2>&1; suite=$?
  (cd lib && cargo test --offline >> "$LOG" 2>&1); lib=$?
  echo "== demo with patch" >> "$LOG"
  cargo test --offline --test "seeded_demo_$NAME" >> "$LOG" 2>&1; seeded=$?
  rm -f "tests/seeded_demo_$NAME.rs"
  # the owning check against the patched worktree
  (cd $CS/verif/engine && CARGO_TARGET_DIR=$CS/target cargo build --offline > $CS/build.log 2>&1); b=$?
  if [ $b -ne 0 ]; then chk="engine-build-failed"; else
    VERIF_DIR=$CS/verif $CS/target/debug/vp check "$ID" quick > "$D/check.log" 2>&1; chk=$?
  fi
  git reset -q --hard HEAD; git clean -q -fd tests
  echo "$NAME: demo-clean=$clean suite-with-patch=$suite lib=$lib demo-with-patch=$seeded check[$ID]=$chk $(grep -a -m1 'signature:' $D/check.log 2>/dev/null)"
done
