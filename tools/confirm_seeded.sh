#!/bin/bash
# usage: confirm_seeded.sh <seeded-dir> <scratch-worktree> [check-id]
# Confirms in the scratch worktree that (1) the demo passes without the patch,
# (2) with the patch the repository's tests still pass and the demo fails;
# then applies the patch to /repo, runs the owning check, and reverts.
D="$1"; WT="$2"
ID="${3:-$(python3 -c "import json;print(json.load(open('$D/meta.json'))['property'])")}"
NAME=$(basename "$D" | tr -c 'A-Za-z0-9\n' '_')
LOG="$D/confirm.log"; : > "$LOG"
cd "$WT" || exit 2
git checkout -q -- src 2>/dev/null
cp "$D/demo.rs" "tests/seeded_demo_$NAME.rs"
echo "== demo without patch" >> "$LOG"
cargo test --offline --test "seeded_demo_$NAME" >> "$LOG" 2>&1; clean=$?
git apply "$D/patch.diff" || { echo "$NAME: patch does not apply in worktree"; exit 2; }
echo "== suite with patch" >> "$LOG"
cargo test --offline --lib --test integration_test >> "$LOG" 2>&1; suite=$?
(cd lib && cargo test --offline >> "$LOG" 2>&1); lib=$?
echo "== demo with patch" >> "$LOG"
cargo test --offline --test "seeded_demo_$NAME" >> "$LOG" 2>&1; seeded=$?
git checkout -q -- src; rm -f "tests/seeded_demo_$NAME.rs"
# now the check against /repo
cd /verif
git -C /repo diff --quiet || { echo "$NAME: /repo dirty"; exit 2; }
if git -C /repo apply --3way "$D/patch.diff" 2>>"$LOG"; then
  ./run.sh "$ID" quick > "$D/check.log" 2>&1; chk=$?
  git -C /repo reset -q --hard HEAD
else
  chk="patch-does-not-apply-to-repo"
fi
echo "$NAME: demo-clean=$clean suite-with-patch=$suite lib=$lib demo-with-patch=$seeded check[$ID]=$chk $(grep -a -m1 'signature:' $D/check.log 2>/dev/null)"
