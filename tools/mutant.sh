#!/bin/sh
# usage: mutant.sh <patch-file> <ID> [tier]   -- applies the patch to /repo, runs the check, reverts
P="$1"; ID="$2"; TIER="${3:-quick}"
git -C /repo diff --quiet || { echo "/repo has local changes"; exit 2; }
git -C /repo apply "$P" || { echo "patch does not apply"; exit 2; }
/verif/run.sh "$ID" "$TIER" > /verif/out/mutant.log 2>&1
code=$?
git -C /repo checkout -- .
echo "$(basename "$P") $ID exit=$code $(grep -a -c '^VIOLATION' /verif/out/mutant.log) violations; $(grep -a -m1 'signature:' /verif/out/mutant.log)"
exit 0
