#!/usr/bin/env python3
"""Greedy minimiser for hanging/crashing cases: removes world entries, items,
roots, imports and resets options while `vp replay` still times out/crashes."""
import json, subprocess, sys, copy, tempfile, os
prop, path = sys.argv[1], sys.argv[2]
VP = '/verif/engine/target/debug/vp'
def bad(case):
    with tempfile.NamedTemporaryFile('w', suffix='.json', delete=False, dir='/verif/out') as f:
        json.dump(case, f); p = f.name
    try:
        r = subprocess.run([VP, 'replay', prop, p], capture_output=True, timeout=4)
        return r.returncode not in (0, 1)
    except subprocess.TimeoutExpired:
        return True
    finally:
        os.unlink(p)
case = json.load(open(path))
assert bad(case)
def B(c): return c['build'] if 'build' in c else c
def W(c): return B(c)['world']
changed = True
while changed:
    changed = False
    for k in list(W(case)['entries'].keys()):
        c = copy.deepcopy(case); del W(c)['entries'][k]
        B(c)['roots'] = [r for r in B(c)['roots'] if r in W(c)['entries']] or B(c)['roots']
        if bad(c): case = c; changed = True
    for k, e in list(W(case)['entries'].items()):
        if isinstance(e, dict) and 'Src' in e:
            i = 0
            while i < len(W(case)['entries'][k]['Src']['items']):
                c = copy.deepcopy(case); del W(c)['entries'][k]['Src']['items'][i]
                if bad(c): case = c; changed = True
                else: i += 1
            if W(case)['entries'][k]['Src']['headers']:
                c = copy.deepcopy(case); W(c)['entries'][k]['Src']['headers'] = []
                if bad(c): case = c; changed = True
    for i in range(len(B(case)['roots'])-1, -1, -1):
        if len(B(case)['roots']) > 1:
            c = copy.deepcopy(case); del B(c)['roots'][i]
            if bad(c): case = c; changed = True
    if B(case).get('imports'):
        c = copy.deepcopy(case); B(c)['imports'] = []
        if bad(c): case = c; changed = True
    for k, v in list(B(case)['opts'].items()):
        if v not in (0, False):
            c = copy.deepcopy(case); B(c)['opts'][k] = 0 if isinstance(v, int) and not isinstance(v, bool) else False
            if bad(c): case = c; changed = True
if 'faults' in case:
    i = 0
    while i < len(case['faults']):
        c = copy.deepcopy(case); del c['faults'][i]
        if bad(c): case = c
        else: i += 1
print(json.dumps(case, separators=(',', ':')))
