//! Oracles of the byte-level fuzz target `fz_analyze` (C08 clause 3 and C13
//! clause a on arbitrary parsable input): every range the analyser reports
//! covers its specifier in the source text, and the analysis result survives
//! its JSON form.

use deno_graph::analysis::{
  DependencyDescriptor, DynamicArgument, ModuleInfo, SpecifierWithRange, TypeScriptReference,
};
use deno_graph::{ModuleSpecifier, Position, PositionRange};

pub const MEDIA: [deno_ast::MediaType; 8] = [
  deno_ast::MediaType::TypeScript,
  deno_ast::MediaType::Tsx,
  deno_ast::MediaType::JavaScript,
  deno_ast::MediaType::Jsx,
  deno_ast::MediaType::Dts,
  deno_ast::MediaType::Mjs,
  deno_ast::MediaType::Mts,
  deno_ast::MediaType::Dmts,
];

/// byte offset of a (line, character) position: lines separated by LF,
/// characters counted as Unicode scalar values
fn to_byte(text: &str, p: Position) -> Option<usize> {
  let mut line = 0usize;
  let mut line_start = 0usize;
  if p.line > 0 {
    for (i, b) in text.bytes().enumerate() {
      if b == b'\n' {
        line += 1;
        if line == p.line {
          line_start = i + 1;
          break;
        }
      }
    }
    if line != p.line {
      return None;
    }
  }
  let rest = &text[line_start..];
  let mut n = 0usize;
  for (i, _) in rest.char_indices() {
    if n == p.character {
      return Some(line_start + i);
    }
    n += 1;
  }
  (n == p.character).then_some(text.len())
}

fn covers(text: &str, r: &PositionRange, cooked: &str, quoteless: bool, pragma: bool) -> Result<(), String> {
  let (Some(s), Some(e)) = (to_byte(text, r.start), to_byte(text, r.end)) else {
    return Err(format!("range {r:?} of {cooked:?} is outside the text"));
  };
  let Some(slice) = text.get(s..e) else {
    return Err(format!("range {r:?} of {cooked:?} is not a slice of the text"));
  };
  if slice.contains('\r') {
    return Ok(()); // CR LF inside a template is cooked to LF
  }
  // either the range is the specifier text itself (quoteless forms, and a
  // quote character that is part of a quoteless pragma value), or it is the
  // specifier between two quote characters (the comment pragmas accept a
  // mismatched pair, `types=".'`, which is leniency of the directive parser,
  // not a range error)
  let quotes = ['"', '\'', '`'];
  let ok = if quoteless || slice == cooked {
    slice == cooked
  } else if slice.contains('\\') {
    true // escapes: the generated layer of C08 checks cooked values
  } else {
    slice.len() >= 2
      && slice.starts_with(quotes)
      && slice.ends_with(quotes)
      && (pragma || slice.chars().next() == slice.chars().last())
      && &slice[1..slice.len() - 1] == cooked
  };
  if ok {
    Ok(())
  } else {
    Err(format!("reported {cooked:?} at bytes {s}..{e} = {slice:?}"))
  }
}

fn swr(text: &str, x: &SpecifierWithRange, quoteless: bool, what: &str) -> Option<String> {
  covers(text, &x.range, &x.text, quoteless, true).err().map(|e| format!("C08/fuzz/range-does-not-cover-specifier/{what}: {e}"))
}

/// `None` = holds (or the input is not analysable)
pub fn check(mt: deno_ast::MediaType, text: &str) -> Option<String> {
  // libFuzzer's panic hook aborts; panics of the parser / analyser are not
  // what these two properties are about, so they are caught and skipped
  static QUIET: std::sync::Once = std::sync::Once::new();
  QUIET.call_once(|| std::panic::set_hook(Box::new(|_| {})));
  let url = ModuleSpecifier::parse("file:///fuzz.ts").unwrap();
  let owned = text.to_string();
  let res = std::panic::catch_unwind(move || {
    deno_graph::ast::ParserModuleAnalyzer::default().analyze_sync(&url, owned.as_str().into(), mt)
  });
  // a panic of the parser / analyser is not what these two properties are about
  let Ok(Ok(info)) = res else { return None };
  // "any parsable source": input the parser only recovers from (unterminated
  // string, stray token, ...) is outside the domain of the range clause
  let recovered = {
    let url = ModuleSpecifier::parse("file:///fuzz.ts").unwrap();
    let owned = text.to_string();
    std::panic::catch_unwind(move || {
      deno_ast::parse_program(deno_ast::ParseParams {
        specifier: url,
        text: owned.into(),
        media_type: mt,
        capture_tokens: false,
        scope_analysis: false,
        maybe_syntax: None,
      })
      .map(|p| !p.diagnostics().is_empty())
      .unwrap_or(true)
    })
    .unwrap_or(true)
  };
  // C13 (a)
  let v = match serde_json::to_value(&info) {
    Ok(v) => v,
    Err(e) => return Some(format!("C13/fuzz/does-not-serialise: {e}")),
  };
  match serde_json::from_value::<ModuleInfo>(v.clone()) {
    Ok(back) => {
      if back != info {
        return Some(format!("C13/fuzz/round-trip-changes-value: {v}"));
      }
      if serde_json::to_value(&back).ok() != Some(v) {
        return Some("C13/fuzz/second-round-not-a-fixed-point".to_string());
      }
    }
    Err(e) => return Some(format!("C13/fuzz/serialised-form-does-not-deserialise: {e}: {v}")),
  }
  // C08 (3)
  if recovered {
    return None;
  }
  for d in &info.dependencies {
    match d {
      DependencyDescriptor::Static(s) => {
        if let Err(e) = covers(text, &s.specifier_range, &s.specifier, false, false) {
          return Some(format!("C08/fuzz/range-does-not-cover-specifier/static: {e}"));
        }
        if let Some(t) = &s.types_specifier {
          if let Some(x) = swr(text, t, false, "types-pragma") {
            return Some(x);
          }
        }
      }
      DependencyDescriptor::Dynamic(dd) => {
        if let DynamicArgument::String(a) = &dd.argument {
          if let Err(e) = covers(text, &dd.argument_range, a, false, false) {
            return Some(format!("C08/fuzz/range-does-not-cover-specifier/dynamic: {e}"));
          }
        }
        if let Some(t) = &dd.types_specifier {
          if let Some(x) = swr(text, t, false, "types-pragma") {
            return Some(x);
          }
        }
      }
    }
  }
  for r in &info.ts_references {
    let (x, what) = match r {
      TypeScriptReference::Path(x) => (x, "reference-path"),
      TypeScriptReference::Types { specifier, .. } => (specifier, "reference-types"),
    };
    if let Some(e) = swr(text, x, false, what) {
      return Some(e);
    }
  }
  if let Some(x) = &info.self_types_specifier {
    if let Some(e) = swr(text, x, false, "self-types") {
      return Some(e);
    }
  }
  if let Some(x) = &info.jsx_import_source {
    if let Some(e) = swr(text, x, true, "jsx-import-source") {
      return Some(e);
    }
  }
  if let Some(x) = &info.jsx_import_source_types {
    if let Some(e) = swr(text, x, true, "jsx-import-source-types") {
      return Some(e);
    }
  }
  for j in &info.jsdoc_imports {
    if let Some(e) = swr(text, &j.specifier, false, "jsdoc-import") {
      return Some(e);
    }
  }
  if let Some(x) = &info.source_map_url {
    if let Some(e) = swr(text, x, true, "source-map-url") {
      return Some(e);
    }
  }
  None
}

/// first byte selects the media type, the rest is the source text
pub fn run(data: &[u8]) -> Option<String> {
  if data.is_empty() {
    return None;
  }
  let mt = MEDIA[(data[0] % 8) as usize];
  let text = std::str::from_utf8(&data[1..]).ok()?;
  let text = text.strip_prefix('\u{feff}').unwrap_or(text);
  // the recursive-descent parser overflows the stack on deeply nested
  // brackets (a limit of the parser, not of the analysis): keep away from it,
  // or every campaign ends in that crash
  let mut depth = 0i32;
  let mut max_depth = 0i32;
  for b in text.bytes() {
    match b {
      b'(' | b'[' | b'{' | b'<' | b'`' => {
        depth += 1;
        max_depth = max_depth.max(depth);
      }
      b')' | b']' | b'}' | b'>' => depth = (depth - 1).max(0),
      _ => {}
    }
  }
  if max_depth > 64 {
    return None;
  }
  check(mt, text)
}
