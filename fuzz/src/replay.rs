//! `fz_replay <file>...`: runs the fuzz oracle on saved inputs without libFuzzer.
fn main() {
  let mut bad = false;
  for f in std::env::args().skip(1) {
    let data = std::fs::read(&f).expect("read input");
    match vp_fuzz::run(&data) {
      Some(sig) => {
        println!("VIOLATION-SIG: {sig} (input {f})");
        bad = true;
      }
      None => println!("{f}: holds"),
    }
  }
  std::process::exit(if bad { 1 } else { 0 });
}
