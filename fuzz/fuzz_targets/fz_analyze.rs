#![no_main]
use libfuzzer_sys::fuzz_target;

fuzz_target!(|data: &[u8]| {
  if let Some(sig) = vp_fuzz::run(data) {
    eprintln!("VIOLATION-SIG: {sig}");
    std::process::abort();
  }
});
