//! Reference walk: reachability over the graph's own recorded data, written
//! from the rustdoc of `WalkOptions` and the statement of C15 (sets, no
//! iterator state).

use deno_graph::{
  GraphKind, MediaType, Module, ModuleError, ModuleErrorKind, ModuleGraph,
  ModuleSpecifier, Resolution,
};
use std::collections::{BTreeMap, BTreeSet};

pub enum Slot<'a> {
  Module(&'a Module),
  Err(&'a ModuleError),
}

pub struct Index<'a> {
  pub slots: BTreeMap<&'a ModuleSpecifier, Slot<'a>>,
}

impl<'a> Index<'a> {
  pub fn new(g: &'a ModuleGraph) -> Self {
    let mut slots = BTreeMap::new();
    for m in g.modules() {
      slots.insert(m.specifier(), Slot::Module(m));
    }
    for e in g.module_errors() {
      slots.insert(e.specifier(), Slot::Err(e));
    }
    Index { slots }
  }
}

#[derive(Clone, Debug)]
pub struct RefWalkOptions {
  pub kind: GraphKind,
  pub follow_dynamic: bool,
  /// 0 = true, 1 = false, 2 = custom predicate (specifier path has even length)
  pub check_js: u8,
  pub prefer_fast_check: bool,
  /// modules whose dependencies the caller skips
  pub skip: BTreeSet<String>,
}

pub fn custom_check_js(s: &ModuleSpecifier) -> bool {
  s.as_str().len() % 2 == 0
}

fn check_js(o: &RefWalkOptions, s: &ModuleSpecifier) -> bool {
  match o.check_js {
    0 => true,
    1 => false,
    _ => custom_check_js(s),
  }
}

fn checkable(o: &RefWalkOptions, s: &ModuleSpecifier, mt: MediaType) -> bool {
  match mt {
    MediaType::TypeScript
    | MediaType::Mts
    | MediaType::Cts
    | MediaType::Dts
    | MediaType::Dmts
    | MediaType::Dcts
    | MediaType::Tsx
    | MediaType::Json
    | MediaType::Wasm => true,
    MediaType::JavaScript | MediaType::Jsx | MediaType::Mjs | MediaType::Cjs => {
      check_js(o, s)
    }
    _ => false,
  }
}

#[derive(Debug, Clone, PartialEq, Eq, PartialOrd, Ord)]
pub enum Yield {
  Module(String),
  Err(String),
  Redirect(String, String),
}

pub struct RefWalk {
  pub yielded: BTreeSet<Yield>,
  pub errors: Vec<String>,
}

pub fn ref_walk(
  g: &ModuleGraph,
  roots: &[ModuleSpecifier],
  o: &RefWalkOptions,
) -> RefWalk {
  let index = Index::new(g);
  let include_types = o.kind.include_types();
  let mut seen: BTreeSet<ModuleSpecifier> = BTreeSet::new();
  let mut work: Vec<ModuleSpecifier> = Vec::new();
  for r in roots {
    if seen.insert(r.clone()) {
      work.push(r.clone());
    }
  }
  for gi in g.imports.values() {
    for dep in gi.dependencies.values() {
      if let Some(s) = dep.maybe_code.maybe_specifier() {
        if seen.insert(s.clone()) {
          work.push(s.clone());
        }
      }
      if include_types {
        if let Some(s) = dep.maybe_type.maybe_specifier() {
          if seen.insert(s.clone()) {
            work.push(s.clone());
          }
        }
      }
    }
  }
  let mut yielded = BTreeSet::new();
  let mut errors = Vec::new();
  while let Some(s) = work.pop() {
    let mut push = |t: &ModuleSpecifier, work: &mut Vec<ModuleSpecifier>| {
      if seen.insert(t.clone()) {
        work.push(t.clone());
      }
    };
    match index.slots.get(&s) {
      None => {
        if let Some(to) = g.redirects.get(&s) {
          yielded.insert(Yield::Redirect(s.to_string(), to.to_string()));
          push(to, &mut work);
        }
      }
      Some(Slot::Err(e)) => {
        yielded.insert(Yield::Err(s.to_string()));
        // missing modules are reported from the importing side when dynamic
        // edges are followed; roots and configured imports have none
        let ignore = o.follow_dynamic
          && matches!(
            e.as_kind(),
            ModuleErrorKind::Missing { maybe_referrer: Some(r), .. }
              if !g.imports.contains_key(&r.specifier)
          );
        if !ignore {
          errors.push(format!("module:{}", e.to_string_with_range()));
        }
      }
      Some(Slot::Module(m)) => {
        if let Module::Js(js) = m {
          if include_types {
            if let Some(Resolution::Ok(r)) =
              js.maybe_types_dependency.as_ref().map(|d| &d.dependency)
            {
              push(&r.specifier, &mut work);
              if o.kind == GraphKind::TypesOnly {
                continue;
              }
            } else if o.kind == GraphKind::TypesOnly
              && !checkable(o, &js.specifier, js.media_type)
            {
              continue;
            }
          }
        }
        yielded.insert(Yield::Module(s.to_string()));
        let check_types =
          include_types && checkable(o, m.specifier(), m.media_type());
        // the fast-check dependency map replaces a JS module's own map when
        // it exists and is preferred; every other module kind keeps its own
        // (stated here rather than taken from the graph's helper)
        let deps = match m {
          deno_graph::Module::Js(js) if check_types && o.prefer_fast_check => match js.fast_check_module() {
            Some(fc) => &fc.dependencies,
            None => &js.dependencies,
          },
          _ => m.dependencies(),
        };
        // errors attached to the module
        if include_types {
          if let Some(td) = m.maybe_types_dependency() {
            check_resolution(
              g,
              &index,
              o,
              m,
              "types",
              &td.specifier,
              &td.dependency,
              false,
              &mut errors,
            );
          }
        }
        for (text, dep) in deps {
          if o.follow_dynamic || !dep.is_dynamic {
            check_resolution(
              g,
              &index,
              o,
              m,
              "code",
              text,
              &dep.maybe_code,
              dep.is_dynamic,
              &mut errors,
            );
            if check_types {
              check_resolution(
                g,
                &index,
                o,
                m,
                "types",
                text,
                &dep.maybe_type,
                dep.is_dynamic,
                &mut errors,
              );
            }
          }
        }
        if o.skip.contains(s.as_str()) {
          continue;
        }
        for dep in deps.values() {
          if !dep.is_dynamic || o.follow_dynamic {
            if let Some(t) = dep.maybe_code.maybe_specifier() {
              push(t, &mut work);
            }
            if include_types {
              if let Some(t) = dep.maybe_type.maybe_specifier() {
                push(t, &mut work);
              }
            }
          }
        }
      }
    }
  }
  errors.sort();
  RefWalk { yielded, errors }
}

/// Follows `redirects` (no limit, cycle-safe) from `s`.
pub fn follow_redirects<'a>(
  g: &'a ModuleGraph,
  s: &'a ModuleSpecifier,
) -> &'a ModuleSpecifier {
  let mut cur = s;
  let mut seen = BTreeSet::new();
  seen.insert(cur);
  while let Some(n) = g.redirects.get(cur) {
    if !seen.insert(n) {
      break;
    }
    cur = n;
  }
  cur
}

#[allow(clippy::too_many_arguments)]
fn check_resolution(
  g: &ModuleGraph,
  index: &Index,
  o: &RefWalkOptions,
  module: &Module,
  kind: &str,
  text: &str,
  res: &Resolution,
  is_dynamic: bool,
  errors: &mut Vec<String>,
) {
  match res {
    Resolution::None => {}
    Resolution::Err(e) => {
      errors.push(format!("resolution-{kind}:{}", e.to_string_with_range()))
    }
    Resolution::Ok(r) => {
      let from = module.specifier().scheme();
      let to = r.specifier.scheme();
      if from == "https" && to == "http" {
        errors.push(format!(
          "resolution-{kind}:downgrade:{}@{}",
          r.specifier, r.range
        ));
      } else if matches!(from, "https" | "http")
        && to == "file"
        && text.to_lowercase().starts_with("file://")
      {
        errors.push(format!(
          "resolution-{kind}:local-import:{}@{}",
          r.specifier, r.range
        ));
      } else if o.follow_dynamic {
        let f = follow_redirects(g, &r.specifier);
        if let Some(Slot::Err(e)) = index.slots.get(f) {
          if let ModuleErrorKind::Missing {
            specifier,
            maybe_referrer,
          } = e.as_kind()
          {
            if is_dynamic {
              errors.push(format!(
                "module:Dynamic import not found \"{specifier}\".\n    at {}",
                r.range
              ));
            } else {
              let at = maybe_referrer
                .as_ref()
                .map(|r| format!("\n    at {r}"))
                .unwrap_or_default();
              errors
                .push(format!("module:Module not found \"{specifier}\".{at}"));
            }
          }
        }
      }
    }
  }
}

/// The same classification applied to the real iterator's output.
pub fn render_graph_error(e: &deno_graph::ModuleGraphError) -> String {
  use deno_graph::ModuleGraphError as E;
  use deno_graph::ResolutionError as R;
  let res = |kind: &str, r: &R| match r {
    R::InvalidDowngrade { specifier, range } => {
      format!("resolution-{kind}:downgrade:{specifier}@{range}")
    }
    R::InvalidLocalImport { specifier, range } => {
      format!("resolution-{kind}:local-import:{specifier}@{range}")
    }
    other => format!("resolution-{kind}:{}", other.to_string_with_range()),
  };
  match e {
    E::ModuleError(m) => format!("module:{}", m.to_string_with_range()),
    E::ResolutionError(r) => res("code", r),
    E::TypesResolutionError(r) => res("types", r),
  }
}
