//! World model: a pure, serialisable description of everything the loader
//! will answer, with *structured* module sources (the reference model reads
//! the structure, the code under test reads the rendered text).

use crate::runner::idx;
use proptest::prelude::*;
use serde::{Deserialize, Serialize};
use std::collections::BTreeMap;
use url::Url;

#[derive(Clone, Copy, Debug, Serialize, Deserialize, PartialEq, Eq, PartialOrd, Ord)]
pub enum Lang {
  Js,
  Jsx,
  Ts,
  Tsx,
  Dts,
}

impl Lang {
  pub fn is_ts(self) -> bool {
    matches!(self, Lang::Ts | Lang::Tsx | Lang::Dts)
  }
  pub fn is_jsx(self) -> bool {
    matches!(self, Lang::Jsx | Lang::Tsx)
  }
}

/// One dependency-bearing construct. `spec` is the specifier text exactly as
/// it appears between the quotes.
#[derive(Clone, Debug, Serialize, Deserialize, PartialEq, Eq)]
pub enum Item {
  /// `import d from "spec" [with {type: attr}]`, optionally preceded by
  /// `// @ts-types="types"`
  Import {
    spec: String,
    attr: Option<String>,
    types: Option<String>,
  },
  /// `import "spec"`
  SideEffect { spec: String, attr: Option<String> },
  /// `export { a as xN } from "spec"`
  ExportFrom { spec: String },
  /// `export * from "spec"`
  ExportStar { spec: String },
  /// `import type { T } from "spec"` (TS only)
  ImportType { spec: String },
  /// `export type { T as XN } from "spec"` (TS only)
  ExportType { spec: String },
  /// `await import("spec" [, {with:{type:attr}}])`
  Dynamic {
    spec: String,
    attr: Option<String>,
    types: Option<String>,
  },
  /// `import(someVariable)`
  DynamicOpaque,
  /// `require("spec")`
  Require { spec: String },
  /// `type Q = import("spec").X` (TS only)
  ImportTypeExpr { spec: String },
  /// `import q = require("spec")` (TS only)
  ImportEquals { spec: String },
  /// `declare module "spec" {}` (TS only)
  DeclareModule { spec: String },
  /// `/// <reference path="spec" />`
  RefPath { spec: String },
  /// `/// <reference types="spec" />`
  RefTypes { spec: String },
  /// `// @ts-self-types="spec"`
  SelfTypes { spec: String },
  /// `/** @jsxImportSource spec */`
  JsxImportSource { spec: String },
  /// `/** @jsxImportSourceTypes spec */`
  JsxImportSourceTypes { spec: String },
  /// `/** @type {import("spec").X} */` (meaningful in JS only)
  JsDocImport { spec: String },
  /// `//# sourceMappingURL=spec`
  SourceMapUrl { spec: String },
  /// `import source w from "spec"`
  ImportSource { spec: String },
  /// `import defer * as n from "spec"`
  ImportDefer { spec: String },
  /// a declaration without dependencies
  Filler,
}

impl Item {
  pub fn spec(&self) -> Option<&str> {
    match self {
      Item::Import { spec, .. }
      | Item::SideEffect { spec, .. }
      | Item::ExportFrom { spec }
      | Item::ExportStar { spec }
      | Item::ImportType { spec }
      | Item::ExportType { spec }
      | Item::Dynamic { spec, .. }
      | Item::Require { spec }
      | Item::ImportTypeExpr { spec }
      | Item::ImportEquals { spec }
      | Item::DeclareModule { spec }
      | Item::RefPath { spec }
      | Item::RefTypes { spec }
      | Item::SelfTypes { spec }
      | Item::JsxImportSource { spec }
      | Item::JsxImportSourceTypes { spec }
      | Item::JsDocImport { spec }
      | Item::SourceMapUrl { spec }
      | Item::ImportSource { spec }
      | Item::ImportDefer { spec } => Some(spec),
      Item::DynamicOpaque | Item::Filler => None,
    }
  }
  /// is this construct a head pragma (must precede the first statement)?
  pub fn is_head(&self) -> bool {
    matches!(
      self,
      Item::RefPath { .. }
        | Item::RefTypes { .. }
        | Item::SelfTypes { .. }
        | Item::JsxImportSource { .. }
        | Item::JsxImportSourceTypes { .. }
    )
  }
  pub fn ts_only(&self) -> bool {
    matches!(
      self,
      Item::ImportType { .. }
        | Item::ExportType { .. }
        | Item::ImportTypeExpr { .. }
        | Item::ImportEquals { .. }
        | Item::DeclareModule { .. }
    )
  }
}

pub type Headers = Vec<(String, String)>;

#[derive(Clone, Debug, Serialize, Deserialize, PartialEq, Eq)]
pub enum Entry {
  Src {
    lang: Lang,
    items: Vec<Item>,
    headers: Headers,
  },
  Text {
    text: String,
    headers: Headers,
  },
  Wasm {
    imports: Vec<String>,
  },
  Redirect {
    to: String,
  },
  External,
  LoadErr,
  /// the loader follows a redirect itself: it answers with the content of
  /// the entry at `to` under the final specifier `to` (a plain redirect when
  /// `to` is not a module entry)
  Alias {
    to: String,
  },
}

#[derive(Clone, Debug, Default, Serialize, Deserialize, PartialEq, Eq)]
pub struct World {
  pub entries: BTreeMap<String, Entry>,
}

fn q(s: &str) -> String {
  // specifier texts are drawn from a safe alphabet; escape defensively
  let mut o = String::with_capacity(s.len() + 2);
  o.push('"');
  for c in s.chars() {
    match c {
      '"' => o.push_str("\\\""),
      '\\' => o.push_str("\\\\"),
      '\n' => o.push_str("\\n"),
      c => o.push(c),
    }
  }
  o.push('"');
  o
}

fn with_attr(attr: &Option<String>) -> String {
  match attr {
    Some(a) => format!(" with {{ type: {} }}", q(a)),
    None => String::new(),
  }
}

/// Renders structured items into source text. ASCII, LF, one construct per
/// line (C08 has its own generator with trivia).
pub fn render(lang: Lang, items: &[Item]) -> String {
  let mut out = String::new();
  for it in items.iter().filter(|i| i.is_head()) {
    match it {
      Item::RefPath { spec } => {
        out.push_str(&format!("/// <reference path={} />\n", q(spec)))
      }
      Item::RefTypes { spec } => {
        out.push_str(&format!("/// <reference types={} />\n", q(spec)))
      }
      Item::SelfTypes { spec } => {
        out.push_str(&format!("// @ts-self-types={}\n", q(spec)))
      }
      Item::JsxImportSource { spec } => {
        out.push_str(&format!("/** @jsxImportSource {spec} */\n"))
      }
      Item::JsxImportSourceTypes { spec } => {
        out.push_str(&format!("/** @jsxImportSourceTypes {spec} */\n"))
      }
      _ => unreachable!(),
    }
  }
  let mut tail = String::new();
  for (n, it) in items.iter().enumerate() {
    if it.is_head() {
      continue;
    }
    match it {
      Item::Import { spec, attr, types } => {
        if let Some(t) = types {
          out.push_str(&format!("// @ts-types={}\n", q(t)));
        }
        out.push_str(&format!(
          "import d{n} from {}{};\n",
          q(spec),
          with_attr(attr)
        ));
      }
      Item::SideEffect { spec, attr } => {
        out.push_str(&format!("import {}{};\n", q(spec), with_attr(attr)))
      }
      Item::ExportFrom { spec } => {
        out.push_str(&format!("export {{ a as x{n} }} from {};\n", q(spec)))
      }
      Item::ExportStar { spec } => {
        out.push_str(&format!("export * from {};\n", q(spec)))
      }
      Item::ImportType { spec } => {
        out.push_str(&format!("import type {{ T{n} }} from {};\n", q(spec)))
      }
      Item::ExportType { spec } => out
        .push_str(&format!("export type {{ T as X{n} }} from {};\n", q(spec))),
      Item::Dynamic { spec, attr, types } => {
        let a = match attr {
          Some(a) => format!(", {{ with: {{ type: {} }} }}", q(a)),
          None => String::new(),
        };
        if let Some(t) = types {
          out.push_str(&format!(
            "const v{n} =\n// @ts-types={}\nimport({}{});\n",
            q(t),
            q(spec),
            a
          ));
        } else {
          out.push_str(&format!("const v{n} = import({}{});\n", q(spec), a));
        }
      }
      Item::DynamicOpaque => {
        out.push_str(&format!("const o{n} = import(globalThis.name{n});\n"))
      }
      Item::Require { spec } => {
        out.push_str(&format!("const r{n} = require({});\n", q(spec)))
      }
      Item::ImportTypeExpr { spec } => {
        // every third one sits inside a (nested) namespace or a
        // `declare global` block: same dependency, deeper in the tree
        match (n + spec.len()) % 6 {
          0 => out.push_str(&format!("declare namespace NsQ{n} {{ export type Q = import({}).X; }}\n", q(spec))),
          1 => out.push_str(&format!("declare namespace NsQ{n} {{ export namespace In {{ export type Q = import({}).X; }} }}\n", q(spec))),
          _ => out.push_str(&format!("type Q{n} = import({}).X;\n", q(spec))),
        }
      }
      Item::ImportEquals { spec } => {
        out.push_str(&format!("import q{n} = require({});\n", q(spec)))
      }
      Item::DeclareModule { spec } => {
        out.push_str(&format!("declare module {} {{ }}\n", q(spec)))
      }
      Item::JsDocImport { spec } => out.push_str(&format!(
        "/** @type {{import({}).X}} */\nconst j{n} = 1;\n",
        q(spec)
      )),
      Item::SourceMapUrl { spec } => {
        tail = format!("//# sourceMappingURL={spec}\n");
      }
      Item::ImportSource { spec } => {
        out.push_str(&format!("import source w{n} from {};\n", q(spec)))
      }
      Item::ImportDefer { spec } => {
        out.push_str(&format!("import defer * as n{n} from {};\n", q(spec)))
      }
      Item::Filler => {
        if lang == Lang::Dts {
          out.push_str(&format!("export declare const f{n}: number;\n"))
        } else {
          out.push_str(&format!("export const f{n} = {n};\n"))
        }
      }
      _ => unreachable!(),
    }
  }
  if !items.iter().any(|i| !i.is_head() && !matches!(i, Item::SourceMapUrl { .. })) {
    // always at least one statement: comment-only programs are C08's domain
    out.push_str("export {};\n");
  }
  out.push_str(&tail);
  out
}

fn leb(mut n: usize, out: &mut Vec<u8>) {
  loop {
    let b = (n & 0x7f) as u8;
    n >>= 7;
    if n == 0 {
      out.push(b);
      break;
    }
    out.push(b | 0x80);
  }
}

/// A minimal valid wasm module importing one function from each module name
/// and exporting one function.
pub fn wasm_bytes(imports: &[String]) -> Vec<u8> {
  let mut out = vec![0x00, 0x61, 0x73, 0x6d, 0x01, 0x00, 0x00, 0x00];
  // type section: one type () -> ()
  out.extend([0x01, 0x04, 0x01, 0x60, 0x00, 0x00]);
  // import section
  if !imports.is_empty() {
    let mut body = Vec::new();
    leb(imports.len(), &mut body);
    for (i, m) in imports.iter().enumerate() {
      leb(m.len(), &mut body);
      body.extend(m.as_bytes());
      let field = format!("f{i}");
      leb(field.len(), &mut body);
      body.extend(field.as_bytes());
      body.push(0x00); // func
      body.push(0x00); // type 0
    }
    out.push(0x02);
    leb(body.len(), &mut out);
    out.extend(body);
  }
  // function section: one function of type 0
  out.extend([0x03, 0x02, 0x01, 0x00]);
  // export section: export "run" func index = number of imported funcs
  {
    let mut body = Vec::new();
    leb(1, &mut body);
    leb(3, &mut body);
    body.extend(b"run");
    body.push(0x00);
    leb(imports.len(), &mut body);
    out.push(0x07);
    leb(body.len(), &mut out);
    out.extend(body);
  }
  // code section: one empty body
  out.extend([0x0a, 0x04, 0x01, 0x02, 0x00, 0x0b]);
  out
}

// ---------------------------------------------------------------------------
// specifier universe

pub const POOL: &[&str] = &[
  "file:///a.ts",
  "file:///b.ts",
  "file:///c.js",
  "file:///d.tsx",
  "file:///e.jsx",
  "file:///f.d.ts",
  "file:///g.json",
  "file:///h.mjs",
  "file:///i.mts",
  "file:///j.wasm",
  "file:///k.css",
  "file:///l",
  "file:///sub/m.ts",
  "file:///sub/n.js",
  "file:///o.txt",
  "https://h.test/a.ts",
  "https://h.test/b.js",
  "https://h.test/c.json",
  "https://h.test/d.d.ts",
  "https://h.test/e",
  "https://h.test/sub/f.tsx",
  "https://h.test/g.js",
  "http://p.test/a.ts",
  "http://p.test/b.js",
];

pub const SPECIALS: &[&str] = &[
  "bare",
  "react",
  "node:fs",
  "node:path",
  "npm:pkg@1",
  "npm:other@^2/sub",
  "data:application/typescript,export%20const%20a%3D1%3B",
  "data:text/javascript,export%20default%201%3B",
  "./missing.ts",
];

/// The import-map table used by the table resolver (resolver option 1, 2).
pub const RESOLVER_TABLE: &[(&str, &str)] = &[
  ("bare", "file:///b.ts"),
  ("react", "https://h.test/g.js"),
  ("react/jsx-runtime", "https://h.test/g.js"),
  ("types-react/jsx-runtime", "https://h.test/d.d.ts"),
];

pub fn lang_for(url: &str) -> Lang {
  let path = url.split('?').next().unwrap_or(url);
  if path.ends_with(".d.ts") || path.ends_with(".d.mts") {
    Lang::Dts
  } else if path.ends_with(".tsx") {
    Lang::Tsx
  } else if path.ends_with(".jsx") {
    Lang::Jsx
  } else if path.ends_with(".ts") || path.ends_with(".mts") {
    Lang::Ts
  } else {
    Lang::Js
  }
}

/// Specifier text for `target` as written inside `referrer`.
pub fn spec_text(referrer: &str, target: &str, rel: bool) -> String {
  if !rel {
    return target.to_string();
  }
  let (Ok(r), Ok(t)) = (Url::parse(referrer), Url::parse(target)) else {
    return target.to_string();
  };
  if r.scheme() != t.scheme() || r.host_str() != t.host_str() {
    return target.to_string();
  }
  if matches!(r.scheme(), "data" | "node" | "npm" | "jsr") {
    return target.to_string();
  }
  match r.make_relative(&t) {
    Some(rel) if !rel.is_empty() => {
      if rel.starts_with("../") || rel.starts_with("./") {
        rel
      } else {
        format!("./{rel}")
      }
    }
    _ => target.to_string(),
  }
}

#[derive(Clone, Debug)]
pub struct RawItem {
  pub form: u8,
  pub target: u16,
  pub rel: bool,
  pub attr: u8,
  pub types_target: Option<u16>,
}

#[derive(Clone, Debug)]
pub enum RawEntry {
  Src {
    lang_twist: u8,
    items: Vec<RawItem>,
    content_type: u8,
    x_ts_types: Option<u16>,
  },
  Text(u8),
  Wasm(Vec<u16>),
  Redirect(u16),
  External,
  LoadErr,
  Alias { to: u16 },
}

#[derive(Clone, Debug)]
pub struct GenParams {
  /// how many pool slots may get an entry
  pub max_entries: usize,
  pub max_items: usize,
  /// which pool indices are eligible (restrict to keep worlds dense)
  pub pool: Vec<usize>,
  /// probability weights
  pub w_redirect: u32,
  pub w_external: u32,
  pub w_err: u32,
  pub w_alias: u32,
  pub w_text: u32,
  pub w_wasm: u32,
  pub specials: bool,
  pub attrs: bool,
  /// only `type: "json"`, and only on imports of `.json` targets
  pub attrs_json_only: bool,
  pub exotic_forms: bool,
  pub source_maps: bool,
}

impl Default for GenParams {
  fn default() -> Self {
    GenParams {
      max_entries: 8,
      max_items: 5,
      pool: (0..POOL.len()).collect(),
      w_redirect: 2,
      w_external: 1,
      w_err: 1,
      w_alias: 1,
      w_text: 1,
      w_wasm: 1,
      specials: true,
      attrs: true,
      attrs_json_only: false,
      exotic_forms: true,
      source_maps: true,
    }
  }
}

const ATTRS: &[Option<&str>] = &[
  None,
  None,
  None,
  None,
  None,
  Some("json"),
  Some("text"),
  Some("bytes"),
  Some("css"),
  Some("bogus"),
];

fn raw_item(p: &GenParams) -> impl Strategy<Value = RawItem> {
  let nforms = if p.exotic_forms { 22u8 } else { 8u8 };
  (
    0..nforms,
    any::<u16>(),
    any::<bool>(),
    0..(ATTRS.len() as u8),
    proptest::option::weighted(0.15, any::<u16>()),
  )
    .prop_map(|(form, target, rel, attr, types_target)| RawItem {
      form,
      target,
      rel,
      attr,
      types_target,
    })
}

pub fn raw_entry(p: &GenParams) -> impl Strategy<Value = RawEntry> {
  let items2 = proptest::collection::vec(raw_item(p), 0..=p.max_items);
  let src = (
    0..10u8,
    items2,
    0..12u8,
    proptest::option::weighted(0.1, any::<u16>()),
  )
    .prop_map(|(lang_twist, items, content_type, x_ts_types)| RawEntry::Src {
      lang_twist,
      items,
      content_type,
      x_ts_types,
    });
  prop_oneof![
    12 => src,
    p.w_text => (0..6u8).prop_map(RawEntry::Text),
    p.w_wasm => proptest::collection::vec(any::<u16>(), 0..3).prop_map(RawEntry::Wasm),
    p.w_redirect => any::<u16>().prop_map(RawEntry::Redirect),
    p.w_external => Just(RawEntry::External),
    p.w_err => Just(RawEntry::LoadErr),
    p.w_alias => any::<u16>().prop_map(|to| RawEntry::Alias { to }),
  ]
}

#[derive(Clone, Debug)]
pub struct RawWorld {
  pub entries: Vec<(u16, RawEntry)>,
}

pub fn raw_world(p: &GenParams) -> impl Strategy<Value = RawWorld> {
  proptest::collection::vec((any::<u16>(), raw_entry(p)), 1..=p.max_entries)
    .prop_map(|entries| RawWorld { entries })
}

const TEXTS: &[&str] = &[
  "{\"a\": 1}",
  "body { color: red }",
  "plain text",
  "export const = ;", // unparsable JS
  "[1, 2, 3]",
  "",
];

const CONTENT_TYPES: &[Option<&str>] = &[
  None,
  None,
  None,
  None,
  None,
  None,
  Some("application/typescript"),
  Some("text/javascript"),
  Some("application/json"),
  Some("text/plain"),
  Some("text/jsx"),
  Some("text/tsx"),
];

thread_local! {
  /// URLs that have an entry in the world being built (targets are biased
  /// towards them so that most edges lead somewhere)
  static PRESENT: std::cell::RefCell<Vec<String>> = const { std::cell::RefCell::new(Vec::new()) };
}

pub fn target_text(p: &GenParams, referrer: &str, t: u16, rel: bool) -> String {
  // 60 %: one of the world's own entries
  let present = PRESENT.with(|pr| pr.borrow().clone());
  if !present.is_empty() && t % 10 < 6 {
    let i = idx(t, present.len());
    return spec_text(referrer, &present[i], rel);
  }
  let n = p.pool.len() + if p.specials { SPECIALS.len() } else { 0 };
  // bias towards the pool: two thirds of the index space maps to the pool
  let i = idx(t, n + p.pool.len());
  let i = if i >= n { i - n } else { i };
  if i < p.pool.len() {
    spec_text(referrer, POOL[p.pool[i]], rel)
  } else {
    SPECIALS[i - p.pool.len()].to_string()
  }
}

fn build_item(p: &GenParams, referrer: &str, lang: Lang, r: &RawItem) -> Item {
  let spec = target_text(p, referrer, r.target, r.rel);
  let attr = if p.attrs_json_only {
    spec.ends_with(".json").then(|| "json".to_string())
  } else if p.attrs {
    if spec.ends_with(".json") && r.attr % 4 != 0 {
      // JSON targets are mostly requested the way they must be
      Some("json".to_string())
    } else {
      ATTRS[r.attr as usize % ATTRS.len()].map(|s| s.to_string())
    }
  } else {
    None
  };
  let types = r
    .types_target
    .map(|t| target_text(p, referrer, t, r.rel));
  let ts = lang.is_ts();
  match r.form {
    0 | 1 => Item::Import { spec, attr, types },
    2 => Item::SideEffect { spec, attr },
    3 => Item::ExportFrom { spec },
    4 => Item::ExportStar { spec },
    5 | 6 => Item::Dynamic { spec, attr, types },
    7 => Item::Filler,
    8 if ts => Item::ImportType { spec },
    9 if ts => Item::ExportType { spec },
    10 if ts => Item::ImportTypeExpr { spec },
    11 if ts && lang != Lang::Dts => Item::ImportEquals { spec },
    12 if ts => Item::DeclareModule { spec },
    13 => Item::RefPath { spec },
    14 => Item::RefTypes { spec },
    15 => Item::SelfTypes { spec },
    16 if lang.is_jsx() => Item::JsxImportSource { spec },
    17 if lang.is_jsx() => Item::JsxImportSourceTypes { spec },
    18 => Item::JsDocImport { spec },
    19 if p.source_maps => Item::SourceMapUrl { spec },
    20 => Item::Require { spec },
    21 => Item::DynamicOpaque,
    _ => Item::Import {
      spec,
      attr: None,
      types: None,
    },
  }
}

fn dedup_singletons(items: &mut Vec<Item>) {
  // at most one of each singleton pragma (the analyser takes the first)
  let mut seen_self = false;
  let mut seen_jsx = false;
  let mut seen_jsxt = false;
  let mut seen_map = false;
  items.retain(|i| match i {
    Item::SelfTypes { .. } => !std::mem::replace(&mut seen_self, true),
    Item::JsxImportSource { .. } => !std::mem::replace(&mut seen_jsx, true),
    Item::JsxImportSourceTypes { .. } => !std::mem::replace(&mut seen_jsxt, true),
    Item::SourceMapUrl { .. } => !std::mem::replace(&mut seen_map, true),
    _ => true,
  });
}

/// Enforce the same-`type`-attribute proviso by construction: within the whole
/// world each *specifier target* is imported with one attribute class.
pub fn unify_attrs(world: &mut World, extra_plain: &[String]) {
  let mut class: BTreeMap<String, Option<String>> = BTreeMap::new();
  let keys: Vec<String> = world.entries.keys().cloned().collect();
  // targets are grouped up to the world's own redirects (a redirect chain
  // is another way of importing the same final target)
  let redirects: BTreeMap<String, String> = world
    .entries
    .iter()
    .filter_map(|(k, e)| match e {
      Entry::Redirect { to } | Entry::Alias { to, .. } => {
        Some((k.clone(), to.clone()))
      }
      _ => None,
    })
    .collect();
  let resolve_key = |referrer: &str, spec: &str| -> String {
    let mut k = resolve_key(referrer, spec);
    for _ in 0..40 {
      match redirects.get(&k) {
        Some(to) => k = to.clone(),
        None => break,
      }
    }
    if redirects.contains_key(&k) {
      // a redirect cycle: one class for the whole cycle
      let mut members = vec![k.clone()];
      let mut cur = redirects[&k].clone();
      while cur != k && members.len() < 64 {
        members.push(cur.clone());
        cur = redirects[&cur].clone();
      }
      members.sort();
      k = members[0].clone();
    }
    k
  };
  for k in &keys {
    let referrer = k.clone();
    let items = match world.entries.get_mut(k) {
      Some(Entry::Src { items, .. }) => items,
      _ => continue,
    };
    for it in items.iter_mut() {
      let (spec, attr) = match it {
        Item::Import { spec, attr, .. }
        | Item::SideEffect { spec, attr }
        | Item::Dynamic { spec, attr, .. } => (spec.clone(), attr),
        _ => continue,
      };
      let key = resolve_key(&referrer, &spec);
      match class.get(&key) {
        Some(c) => *attr = c.clone(),
        None => {
          class.insert(key, attr.clone());
        }
      }
    }
  }
  // forms that cannot carry an attribute force the class to None: if any
  // attribute-less form targets the same key, drop the attribute everywhere.
  let mut plain: std::collections::BTreeSet<String> = Default::default();
  for e in extra_plain {
    plain.insert(resolve_key("file:///deno.json", e));
  }
  // targets the table resolver injects by itself (JSX defaults, resolve_types)
  for (_, to) in RESOLVER_TABLE {
    plain.insert(resolve_key("file:///deno.json", to));
  }
  plain.insert(resolve_key("file:///deno.json", "file:///f.d.ts"));
  for k in &keys {
    if let Some(Entry::Src { items, .. }) = world.entries.get(k) {
      for it in items {
        if let Item::JsxImportSource { spec } | Item::JsxImportSourceTypes { spec } = it {
          plain.insert(resolve_key(k, &format!("{spec}/jsx-runtime")));
        }
      }
    }
  }
  // A source-map URL is an implicit asset import (like `type: "bytes"`): its
  // target must not be requested any other way, else the first-load context
  // decides between "asset" and "module" (the situation the proviso excludes).
  {
    let mut other: std::collections::BTreeSet<String> = plain.clone();
    let mut map_targets: BTreeMap<String, usize> = BTreeMap::new();
    for k in &keys {
      other.insert(resolve_key("file:///deno.json", k));
      if let Some(Entry::Src { items, headers, .. }) = world.entries.get(k) {
        for it in items {
          match it {
            Item::SourceMapUrl { spec } => {
              *map_targets.entry(resolve_key(k, spec)).or_insert(0) += 1;
            }
            o => {
              if let Some(s) = o.spec() {
                other.insert(resolve_key(k, s));
              }
              if let Item::Import { types: Some(t), .. }
              | Item::Dynamic { types: Some(t), .. } = o
              {
                other.insert(resolve_key(k, t));
              }
            }
          }
        }
        for (h, v) in headers {
          if h == "x-typescript-types" {
            other.insert(resolve_key(k, v));
          }
        }
      }
      if let Some(Entry::Wasm { imports }) = world.entries.get(k) {
        for s in imports {
          other.insert(resolve_key(k, s));
        }
      }
    }
    for k in &keys {
      let referrer = k.clone();
      if let Some(Entry::Src { items, .. }) = world.entries.get_mut(k) {
        for it in items.iter_mut() {
          if let Item::SourceMapUrl { spec } = it {
            if other.contains(&resolve_key(&referrer, spec)) {
              *it = Item::Filler;
            }
          }
        }
      }
    }
  }
  for k in &keys {
    let items = match world.entries.get(k) {
      Some(Entry::Src { items, .. }) => items,
      _ => continue,
    };
    for it in items {
      match it {
        Item::Import { .. } | Item::SideEffect { .. } | Item::Dynamic { .. } => {}
        other => {
          if let Some(s) = other.spec() {
            plain.insert(resolve_key(k, s));
          }
        }
      }
    }
    if let Some(Entry::Src { headers, .. }) = world.entries.get(k) {
      for (h, v) in headers {
        if h == "x-typescript-types" {
          plain.insert(resolve_key(k, v));
        }
      }
    }
  }
  for k in &keys {
    if let Some(Entry::Wasm { imports }) = world.entries.get(k) {
      for s in imports {
        plain.insert(resolve_key(k, s));
      }
    }
  }
  for k in &keys {
    let referrer = k.clone();
    let items = match world.entries.get_mut(k) {
      Some(Entry::Src { items, .. }) => items,
      _ => continue,
    };
    for it in items.iter_mut() {
      match it {
        Item::Import { spec, attr, types } | Item::Dynamic { spec, attr, types } => {
          if plain.contains(&resolve_key(&referrer, spec)) {
            *attr = None;
          }
          if attr.is_some() {
            // a types override on an attributed import would be a second
            // way to reach a target; keep the attributed forms simple
            *types = None;
          }
        }
        Item::SideEffect { spec, attr } => {
          if plain.contains(&resolve_key(&referrer, spec)) {
            *attr = None;
          }
        }
        _ => {}
      }
    }
  }
  // types overrides reach their target without an attribute
  let mut types_targets: std::collections::BTreeSet<String> = Default::default();
  for k in &keys {
    let items = match world.entries.get(k) {
      Some(Entry::Src { items, .. }) => items,
      _ => continue,
    };
    for it in items {
      if let Item::Import { types: Some(t), .. } | Item::Dynamic { types: Some(t), .. } = it {
        types_targets.insert(resolve_key(k, t));
      }
    }
  }
  if !types_targets.is_empty() {
    for k in &keys {
      let referrer = k.clone();
      let items = match world.entries.get_mut(k) {
        Some(Entry::Src { items, .. }) => items,
        _ => continue,
      };
      for it in items.iter_mut() {
        match it {
          Item::Import { spec, attr, .. }
          | Item::Dynamic { spec, attr, .. }
          | Item::SideEffect { spec, attr } => {
            if types_targets.contains(&resolve_key(&referrer, spec)) {
              *attr = None;
            }
          }
          _ => {}
        }
      }
    }
  }
}

/// The key under which "imports of one target" are grouped: the URL the
/// specifier resolves to by plain URL resolution (falls back to the text).
/// Final targets every request of which carries `type: "json"` (requests are
/// followed through the world's redirects and aliases).
pub fn json_class_targets(world: &World) -> std::collections::BTreeSet<String> {
  let mut with: std::collections::BTreeSet<String> = Default::default();
  let mut without: std::collections::BTreeSet<String> = Default::default();
  for (referrer, e) in &world.entries {
    let Entry::Src { items, .. } = e else { continue };
    for it in items {
      let (spec, attr) = match it {
        Item::Import { spec, attr, .. } | Item::SideEffect { spec, attr } | Item::Dynamic { spec, attr, .. } => (spec, attr.clone()),
        Item::ExportFrom { spec, .. } => (spec, None),
        _ => continue,
      };
      let mut k = resolve_key(referrer, spec);
      for _ in 0..40 {
        match world.entries.get(&k) {
          Some(Entry::Redirect { to }) | Some(Entry::Alias { to }) => k = to.clone(),
          _ => break,
        }
      }
      if attr.as_deref() == Some("json") {
        with.insert(k);
      } else {
        without.insert(k);
      }
    }
  }
  with.difference(&without).cloned().collect()
}

pub fn resolve_key(referrer: &str, spec: &str) -> String {
  for (bare, to) in RESOLVER_TABLE {
    if spec == *bare {
      return to.to_string();
    }
  }
  if let Ok(u) = Url::parse(spec) {
    return u.to_string();
  }
  if spec.starts_with("./") || spec.starts_with("../") || spec.starts_with('/') {
    if let Ok(r) = Url::parse(referrer) {
      if let Ok(u) = r.join(spec) {
        return u.to_string();
      }
    }
  }
  format!("bare:{spec}")
}


/// Builds one entry for `url` from its raw description.
pub fn build_one(p: &GenParams, url: &str, re: &RawEntry) -> Entry {
  let url = url.to_string();
  let natural = lang_for(&url);
    let entry = match re {
      RawEntry::Src {
        lang_twist,
        items,
        content_type,
        x_ts_types,
      } => {
        let mut headers: Headers = Vec::new();
        let remote = url.starts_with("http");
        let mut lang = natural;
        if remote {
          if let Some(ct) = CONTENT_TYPES[*content_type as usize % CONTENT_TYPES.len()] {
            headers.push(("content-type".to_string(), ct.to_string()));
            lang = match ct {
              "application/typescript" => {
                if natural == Lang::Dts {
                  Lang::Dts
                } else {
                  Lang::Ts
                }
              }
              "text/javascript" => Lang::Js,
              "text/jsx" => Lang::Jsx,
              "text/tsx" => Lang::Tsx,
              _ => natural,
            };
          }
          if let Some(t) = x_ts_types {
            headers.push((
              "x-typescript-types".to_string(),
              target_text(p, &url, *t, true),
            ));
          }
        }
        // occasionally write the source in a language that does not match
        // the media type (parse errors are part of the domain)
        if *lang_twist == 0 {
          lang = match lang {
            Lang::Js | Lang::Jsx => Lang::Ts,
            other => other,
          };
        }
        let mut its: Vec<Item> =
          items.iter().map(|r| build_item(p, &url, lang, r)).collect();
        dedup_singletons(&mut its);
        Entry::Src {
          lang,
          items: its,
          headers,
        }
      }
      RawEntry::Text(i) => Entry::Text {
        text: TEXTS[*i as usize % TEXTS.len()].to_string(),
        headers: vec![],
      },
      RawEntry::Wasm(ts) => Entry::Wasm {
        imports: ts.iter().map(|t| target_text(p, &url, *t, true)).collect(),
      },
      RawEntry::Redirect(t) => Entry::Redirect {
        to: POOL[p.pool[idx(*t, p.pool.len())]].to_string(),
      },
      RawEntry::External => Entry::External,
      RawEntry::LoadErr => Entry::LoadErr,
      RawEntry::Alias { to } => {
        let to = POOL[p.pool[idx(*to, p.pool.len())]].to_string();
        if to == url {
          Entry::External
        } else {
          Entry::Alias { to }
        }
      }
    };
  entry
}

pub fn build_world(p: &GenParams, raw: &RawWorld) -> World {
  let mut world = World::default();
  let mut present: Vec<String> = Vec::new();
  for (slot, _) in &raw.entries {
    let url = POOL[p.pool[idx(*slot, p.pool.len())]].to_string();
    if !present.contains(&url) {
      present.push(url);
    }
  }
  PRESENT.with(|pr| *pr.borrow_mut() = present);
  for (slot, re) in &raw.entries {
    let url = POOL[p.pool[idx(*slot, p.pool.len())]].to_string();
    if world.entries.contains_key(&url) {
      continue;
    }
    let entry = build_one(p, &url, re);
    world.entries.insert(url, entry);
  }
  unify_attrs(&mut world, &[]);
  world
}

pub fn world_strategy(p: GenParams) -> impl Strategy<Value = World> {
  let p2 = p.clone();
  raw_world(&p).prop_map(move |raw| build_world(&p2, &raw))
}

// ---------------------------------------------------------------------------
// build options and cases

#[derive(Clone, Debug, Serialize, Deserialize, PartialEq, Eq)]
pub struct Opts {
  /// 0 = All, 1 = CodeOnly, 2 = TypesOnly
  pub kind: u8,
  pub is_dynamic: bool,
  pub skip_dynamic_deps: bool,
  pub unstable_bytes: bool,
  pub unstable_text: bool,
  pub unstable_css: bool,
  /// 0 = none, 1 = import-map table, 2 = table + jsx defaults + resolve_types
  pub resolver: u8,
  pub npm_resolver: bool,
  pub passthrough_jsr: bool,
}

impl Default for Opts {
  fn default() -> Self {
    Opts {
      kind: 0,
      is_dynamic: false,
      skip_dynamic_deps: false,
      unstable_bytes: false,
      unstable_text: false,
      unstable_css: false,
      resolver: 0,
      npm_resolver: false,
      passthrough_jsr: false,
    }
  }
}

impl Opts {
  pub fn graph_kind(&self) -> deno_graph::GraphKind {
    match self.kind {
      0 => deno_graph::GraphKind::All,
      1 => deno_graph::GraphKind::CodeOnly,
      _ => deno_graph::GraphKind::TypesOnly,
    }
  }
}

pub fn opts_strategy() -> impl Strategy<Value = Opts> {
  (
    prop_oneof![3 => Just(0u8), 1 => Just(1u8), 1 => Just(2u8)],
    proptest::bool::weighted(0.1),
    proptest::bool::weighted(0.15),
    proptest::bool::weighted(0.5),
    proptest::bool::weighted(0.5),
    proptest::bool::weighted(0.5),
    prop_oneof![3 => Just(0u8), 1 => Just(1u8), 1 => Just(2u8)],
    proptest::bool::weighted(0.5),
    proptest::bool::weighted(0.1),
  )
    .prop_map(
      |(
        kind,
        is_dynamic,
        skip_dynamic_deps,
        unstable_bytes,
        unstable_text,
        unstable_css,
        resolver,
        npm_resolver,
        passthrough_jsr,
      )| Opts {
        kind,
        is_dynamic,
        skip_dynamic_deps,
        unstable_bytes,
        unstable_text,
        unstable_css,
        resolver,
        npm_resolver,
        passthrough_jsr,
      },
    )
}

#[derive(Clone, Debug, Serialize, Deserialize, PartialEq, Eq)]
pub struct BuildCase {
  pub world: World,
  pub roots: Vec<String>,
  /// configured type imports: (referrer, specifiers)
  pub imports: Vec<(String, Vec<String>)>,
  pub opts: Opts,
}

pub fn build_case_strategy(p: GenParams) -> impl Strategy<Value = BuildCase> {
  let p2 = p.clone();
  (
    world_strategy(p),
    proptest::collection::vec(any::<u16>(), 1..=3),
    proptest::collection::vec((any::<u16>(), any::<bool>()), 0..=2),
    opts_strategy(),
  )
    .prop_map(move |(mut world, root_idx, import_idx, opts)| {
      let keys: Vec<String> = world.entries.keys().cloned().collect();
      let mut roots: Vec<String> = Vec::new();
      for r in root_idx {
        let k = keys[idx(r, keys.len())].clone();
        if !roots.contains(&k) {
          roots.push(k);
        }
      }
      let mut imports = Vec::new();
      if !import_idx.is_empty() {
        let referrer = "file:///deno.json".to_string();
        let specs: Vec<String> = import_idx
          .iter()
          .map(|(t, rel)| target_text(&p2, &referrer, *t, *rel))
          .collect();
        let mut uniq = Vec::new();
        for s in specs {
          if !uniq.contains(&s) {
            uniq.push(s);
          }
        }
        // configured imports carry no attribute: their targets are in the
        // attribute-less class (same-attribute proviso)
        imports.push((referrer, uniq));
      }
      // roots and configured imports carry no attribute: their targets are
      // in the attribute-less class (same-attribute proviso)
      let mut plain: Vec<String> = roots.clone();
      for (_, specs) in &imports {
        plain.extend(specs.iter().cloned());
      }
      unify_attrs(&mut world, &plain);
      BuildCase {
        world,
        roots,
        imports,
        opts,
      }
    })
}

/// Replaces every redirect/alias entry that closes a cycle by an external
/// entry (used by properties whose domain excludes redirect loops).
pub fn break_redirect_cycles(world: &mut World) {
  loop {
    let mut to_break: Option<String> = None;
    'outer: for (k, e) in &world.entries {
      if let Entry::Redirect { .. } | Entry::Alias { .. } = e {
        let mut seen = vec![k.clone()];
        let mut cur = k.clone();
        loop {
          match world.entries.get(&cur) {
            Some(Entry::Redirect { to }) | Some(Entry::Alias { to }) => {
              if seen.contains(to) {
                to_break = Some(cur.clone());
                break 'outer;
              }
              seen.push(to.clone());
              cur = to.clone();
            }
            _ => break,
          }
        }
      }
    }
    match to_break {
      Some(k) => {
        world.entries.insert(k, Entry::External);
      }
      None => break,
    }
  }
}
