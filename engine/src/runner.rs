//! Generic campaign runner: proptest-driven generation, shrinking, replay,
//! worker processes, known findings and evidence files.
//!
//! A property is a `PropSpec<C>`: a strategy producing cases `C`, and a check
//! `fn(&C, Tier) -> Outcome`.  Everything random comes from proptest's RNG,
//! which is seeded from `VERIF_SEED`, the property id and the worker index.

use proptest::strategy::{BoxedStrategy, Strategy, ValueTree};
use proptest::test_runner::{
  Config, RngAlgorithm, TestCaseError, TestError, TestRng, TestRunner,
};
use serde::de::DeserializeOwned;
use serde::{Deserialize, Serialize};
use sha2::{Digest, Sha256};
use std::cell::RefCell;
use std::collections::{BTreeMap, BTreeSet};
use std::io::{Seek, SeekFrom, Write};
use std::path::{Path, PathBuf};
use std::sync::atomic::{AtomicU64, Ordering};
use std::sync::Arc;
use std::time::{Duration, Instant};

#[derive(Clone, Copy, Debug, PartialEq, Eq, Serialize, Deserialize)]
#[serde(rename_all = "lowercase")]
pub enum Tier {
  Quick,
  Thorough,
}

impl Tier {
  pub fn pick<T>(self, quick: T, thorough: T) -> T {
    match self {
      Tier::Quick => quick,
      Tier::Thorough => thorough,
    }
  }
  pub fn as_str(self) -> &'static str {
    self.pick("quick", "thorough")
  }
}

#[derive(Clone, Debug, Serialize, Deserialize)]
pub struct Violation {
  /// oracle clause + normalised shape; the key used by known_findings.json
  pub sig: String,
  /// human readable detail
  pub msg: String,
}

#[derive(Clone, Debug, Default)]
pub struct Outcome {
  pub labels: Vec<String>,
  pub nontrivial: bool,
  pub violations: Vec<Violation>,
  /// the case was outside the checked domain (counted, never a violation)
  pub discarded: bool,
}

impl Outcome {
  pub fn label(&mut self, l: impl Into<String>) {
    self.labels.push(l.into());
  }
  pub fn violate(&mut self, sig: impl Into<String>, msg: impl Into<String>) {
    self.violations.push(Violation {
      sig: sig.into(),
      msg: msg.into(),
    });
  }
}

pub struct PropSpec<C> {
  pub id: &'static str,
  pub strategy: fn(Tier) -> BoxedStrategy<C>,
  pub check: fn(&C, Tier) -> Outcome,
  pub cases: fn(Tier) -> u64,
  pub rule: &'static str,
  pub assumptions: &'static [&'static str],
  /// the property statement itself promises termination / no panics
  pub crash_is_violation: bool,
  /// optional deterministic enumeration layer run by the parent process
  pub extra: Option<fn(Tier, u64) -> ExtraReport>,
  pub level: &'static str,
}

#[derive(Default, Debug, Clone, Serialize, Deserialize)]
pub struct ExtraReport {
  pub evaluations: u64,
  pub nontrivial_hashes: Vec<u64>,
  pub labels: BTreeMap<String, u64>,
  pub samples: Vec<serde_json::Value>,
  pub violations: Vec<(Violation, serde_json::Value)>,
  pub exhaustive: Option<bool>,
  pub notes: Vec<String>,
}

#[derive(Debug, Clone, Serialize, Deserialize)]
pub struct KnownFinding {
  pub property: String,
  pub signature: String,
  pub what: String,
}

#[derive(Debug, Clone, Default, Serialize, Deserialize)]
pub struct KnownFindingsFile {
  #[serde(default)]
  pub findings: Vec<KnownFinding>,
  #[serde(default)]
  pub fixed: Vec<String>,
}

pub fn verif_dir() -> PathBuf {
  std::env::var("VERIF_DIR")
    .map(PathBuf::from)
    .unwrap_or_else(|_| PathBuf::from("/verif"))
}

pub fn load_known(id: &str) -> BTreeMap<String, String> {
  let p = verif_dir().join("known_findings.json");
  let mut out = BTreeMap::new();
  if let Ok(text) = std::fs::read_to_string(&p) {
    let f: KnownFindingsFile =
      serde_json::from_str(&text).expect("known_findings.json must parse");
    for k in f.findings {
      if k.property == id {
        out.insert(k.signature, k.what);
      }
    }
  }
  out
}

pub fn hash_json(v: &serde_json::Value) -> u64 {
  let s = serde_json::to_string(v).unwrap();
  let d = Sha256::digest(s.as_bytes());
  u64::from_le_bytes(d[..8].try_into().unwrap())
}

fn seed_bytes(seed: u64, id: &str, worker: u64, round: u64) -> [u8; 32] {
  let mut h = Sha256::new();
  h.update(b"vp-seed");
  h.update(seed.to_le_bytes());
  h.update(id.as_bytes());
  h.update(worker.to_le_bytes());
  h.update(round.to_le_bytes());
  h.finalize().into()
}

/// Phase marker of the case a worker is running. A check whose property
/// covers the termination of one operation only (a walk, say, but not the
/// build that precedes it) sets `PHASE_COVERED` while that operation runs: a
/// hang observed then is a violation even when crashes elsewhere are not.
pub static PHASE: std::sync::atomic::AtomicU8 = std::sync::atomic::AtomicU8::new(0);
pub const PHASE_COVERED: u8 = 2;
pub fn set_phase(p: u8) {
  PHASE.store(p, Ordering::SeqCst);
}

pub fn env_seed() -> u64 {
  std::env::var("VERIF_SEED")
    .ok()
    .and_then(|s| s.trim().parse::<i64>().ok())
    .map(|v| v as u64)
    .unwrap_or(0)
}

#[derive(Default, Debug, Serialize, Deserialize)]
pub struct WorkerReport {
  pub evaluations: u64,
  pub discarded: u64,
  pub nontrivial_hashes: Vec<u64>,
  pub labels: BTreeMap<String, u64>,
  pub samples: Vec<serde_json::Value>,
  /// shrunk failing cases (unknown signatures)
  pub violations: Vec<FoundViolation>,
  pub known_hits: BTreeMap<String, u64>,
  pub known_samples: BTreeMap<String, serde_json::Value>,
  pub excluded_panics: Vec<(String, serde_json::Value)>,
  pub suppressed_repeat_hits: u64,
  pub hang: Option<serde_json::Value>,
  #[serde(default)]
  pub hang_phase: u8,
}

#[derive(Debug, Clone, Serialize, Deserialize)]
pub struct FoundViolation {
  pub sig: String,
  pub msg: String,
  pub case: serde_json::Value,
  pub panic: bool,
}

thread_local! {
  static LAST_PANIC: RefCell<Option<String>> = const { RefCell::new(None) };
  /// panics inside a checked case are captured, not printed
  static QUIET: std::cell::Cell<bool> = const { std::cell::Cell::new(false) };
}

pub fn install_panic_hook() {
  std::panic::set_hook(Box::new(|info| {
    let loc = info
      .location()
      .map(|l| {
        let f = l.file();
        let f = f.rsplit("/src/").next().unwrap_or(f);
        format!("{}:{}", f, l.line())
      })
      .unwrap_or_default();
    let msg = if let Some(s) = info.payload().downcast_ref::<&str>() {
      s.to_string()
    } else if let Some(s) = info.payload().downcast_ref::<String>() {
      s.clone()
    } else {
      "<non-string panic>".to_string()
    };
    if !QUIET.with(|q| q.get()) {
      eprintln!("panic at {loc}: {msg}");
    }
    LAST_PANIC.with(|p| *p.borrow_mut() = Some(format!("{loc}: {msg}")));
  }));
}

/// Runs the check under catch_unwind. A panic becomes `Err(message)`.
pub fn run_check<C>(
  check: fn(&C, Tier) -> Outcome,
  case: &C,
  tier: Tier,
) -> Result<Outcome, String> {
  LAST_PANIC.with(|p| *p.borrow_mut() = None);
  QUIET.with(|q| q.set(true));
  let r = std::panic::catch_unwind(std::panic::AssertUnwindSafe(|| {
    check(case, tier)
  }));
  QUIET.with(|q| q.set(false));
  match r {
    Ok(o) => Ok(o),
    Err(_) => Err(
      LAST_PANIC
        .with(|p| p.borrow_mut().take())
        .unwrap_or_else(|| "panic".to_string()),
    ),
  }
}

fn panic_sig(id: &str, msg: &str) -> String {
  // location + start of the message with specifiers normalised, so that one
  // root cause is one signature
  let mut norm = String::new();
  for w in msg.split_whitespace() {
    if w.contains("://") || w.starts_with("file:") || w.starts_with("jsr:") || w.starts_with("npm:") {
      norm.push_str("<specifier>");
    } else {
      norm.push_str(w);
    }
    norm.push(' ');
    if norm.len() > 90 {
      break;
    }
  }
  format!("{id}/panic/{}", norm.trim())
}

struct WorkerState {
  report: WorkerReport,
  nontrivial: BTreeSet<u64>,
  shrinking_target: Option<String>,
  suppressed: BTreeSet<String>,
}

pub fn worker_main<C>(
  spec: &PropSpec<C>,
  tier: Tier,
  seed: u64,
  worker: u64,
  cases: u64,
  out_path: &Path,
  cur_path: &Path,
) where
  C: Serialize + DeserializeOwned + Clone + std::fmt::Debug + 'static,
{
  install_panic_hook();
  let known = load_known(spec.id);
  let state = RefCell::new(WorkerState {
    report: WorkerReport::default(),
    nontrivial: BTreeSet::new(),
    shrinking_target: None,
    suppressed: BTreeSet::new(),
  });
  let cur_file = RefCell::new(
    std::fs::OpenOptions::new()
      .create(true)
      .write(true)
      .truncate(true)
      .open(cur_path)
      .expect("open current-case file"),
  );
  // watchdog: a case that runs longer than the limit is a hang
  let case_started = Arc::new(AtomicU64::new(0));
  let t0 = Instant::now();
  let limit = Duration::from_secs(
    std::env::var("VP_CASE_TIMEOUT_S")
      .ok()
      .and_then(|s| s.parse().ok())
      .unwrap_or(120),
  );
  {
    let case_started = case_started.clone();
    let out_path = out_path.to_path_buf();
    let cur_path = cur_path.to_path_buf();
    std::thread::spawn(move || loop {
      std::thread::sleep(Duration::from_millis(500));
      let s = case_started.load(Ordering::SeqCst);
      if s != 0 {
        let started = Duration::from_millis(s);
        if t0.elapsed() > started + limit {
          let case: serde_json::Value = std::fs::read_to_string(&cur_path)
            .ok()
            .and_then(|t| serde_json::from_str(&t).ok())
            .unwrap_or(serde_json::Value::Null);
          let rep = WorkerReport {
            hang: Some(case),
            hang_phase: PHASE.load(Ordering::SeqCst),
            ..Default::default()
          };
          let _ = std::fs::write(
            out_path.with_extension("hang.json"),
            serde_json::to_string(&rep).unwrap(),
          );
          std::process::exit(3);
        }
      }
    });
  }

  let max_distinct = 4usize;
  let mut round = 0u64;
  loop {
    let done = state.borrow().report.evaluations;
    if done >= cases {
      break;
    }
    if state.borrow().report.violations.len() >= max_distinct {
      break;
    }
    let remaining = cases - done;
    let config = Config {
      cases: remaining.min(u32::MAX as u64) as u32,
      failure_persistence: None,
      max_shrink_iters: 4000,
      max_global_rejects: 1_000_000,
      ..Config::default()
    };
    let rng = TestRng::from_seed(
      RngAlgorithm::ChaCha,
      &seed_bytes(seed, spec.id, worker, round),
    );
    let mut runner = TestRunner::new_with_rng(config, rng);
    let strategy = (spec.strategy)(tier);
    state.borrow_mut().shrinking_target = None;
    let result = runner.run(&strategy, |case| {
      let shrinking = state.borrow().shrinking_target.is_some();
      let json = serde_json::to_value(&case).unwrap();
      {
        let mut f = cur_file.borrow_mut();
        let text = serde_json::to_vec(&json).unwrap();
        let _ = f.seek(SeekFrom::Start(0));
        let _ = f.write_all(&text);
        let _ = f.set_len(text.len() as u64);
      }
      set_phase(0);
      case_started
        .store(t0.elapsed().as_millis().max(1) as u64, Ordering::SeqCst);
      let res = run_check(spec.check, &case, tier);
      case_started.store(0, Ordering::SeqCst);
      let mut st = state.borrow_mut();
      let (outcome, panic_msg) = match res {
        Ok(o) => (o, None),
        Err(msg) => {
          let mut o = Outcome::default();
          o.violate(panic_sig(spec.id, &msg), msg.clone());
          (o, Some(msg))
        }
      };
      if shrinking {
        let target = st.shrinking_target.clone().unwrap();
        if outcome.violations.iter().any(|v| v.sig == target) {
          return Err(TestCaseError::fail(target));
        }
        return Ok(());
      }
      st.report.evaluations += 1;
      if outcome.discarded {
        st.report.discarded += 1;
      }
      for l in &outcome.labels {
        *st.report.labels.entry(l.clone()).or_insert(0) += 1;
      }
      if outcome.nontrivial {
        let h = hash_json(&json);
        if st.nontrivial.insert(h) && st.report.samples.len() < 3 {
          st.report.samples.push(json.clone());
        }
      }
      let mut fail: Option<String> = None;
      for v in &outcome.violations {
        if let Some(_what) = known.get(&v.sig) {
          *st.report.known_hits.entry(v.sig.clone()).or_insert(0) += 1;
          st.report
            .known_samples
            .entry(v.sig.clone())
            .or_insert_with(|| json.clone());
        } else if panic_msg.is_some() && !spec.crash_is_violation {
          // a panic inside the code under test for a property that does not
          // promise panic freedom: excluded case, reported in evidence
          if st.report.excluded_panics.len() < 20 {
            st.report
              .excluded_panics
              .push((v.msg.clone(), json.clone()));
          }
        } else if st.suppressed.contains(&v.sig) {
          st.report.suppressed_repeat_hits += 1;
        } else if fail.is_none() {
          fail = Some(v.sig.clone());
        }
      }
      if let Some(sig) = fail {
        st.shrinking_target = Some(sig.clone());
        return Err(TestCaseError::fail(sig));
      }
      Ok(())
    });
    match result {
      Ok(()) => break,
      Err(TestError::Fail(reason, case)) => {
        let sig = reason.message().to_string();
        // re-run the shrunk case once to obtain its message
        let res = run_check(spec.check, &case, tier);
        let (msg, panic) = match res {
          Ok(o) => (
            o.violations
              .iter()
              .find(|v| v.sig == sig)
              .map(|v| v.msg.clone())
              .unwrap_or_default(),
            false,
          ),
          Err(m) => (m, true),
        };
        let mut st = state.borrow_mut();
        st.suppressed.insert(sig.clone());
        st.report.violations.push(FoundViolation {
          sig,
          msg,
          case: serde_json::to_value(&case).unwrap(),
          panic,
        });
        st.shrinking_target = None;
        round += 1;
      }
      Err(TestError::Abort(reason)) => {
        eprintln!("proptest aborted: {reason}");
        std::process::exit(2);
      }
    }
  }
  let mut st = state.into_inner();
  st.report.nontrivial_hashes = st.nontrivial.into_iter().collect();
  std::fs::write(out_path, serde_json::to_string(&st.report).unwrap())
    .expect("write worker report");
}

/// Replays one saved case. Returns violations (unknown, known).
pub fn replay_case<C>(
  spec: &PropSpec<C>,
  tier: Tier,
  json: &serde_json::Value,
) -> Result<Vec<Violation>, String>
where
  C: DeserializeOwned,
{
  let case: C = serde_json::from_value(json.clone())
    .map_err(|e| format!("cannot decode case: {e}"))?;
  match run_check(spec.check, &case, tier) {
    Ok(o) => Ok(o.violations),
    Err(msg) => Ok(vec![Violation {
      sig: panic_sig(spec.id, &msg),
      msg,
    }]),
  }
}

fn num_workers() -> u64 {
  std::env::var("VP_WORKERS")
    .ok()
    .and_then(|s| s.parse().ok())
    .unwrap_or_else(|| {
      std::thread::available_parallelism()
        .map(|n| n.get() as u64)
        .unwrap_or(8)
        .min(16)
    })
}

pub fn sig_file_name(sig: &str) -> String {
  let d = Sha256::digest(sig.as_bytes());
  let hex: String = d[..6].iter().map(|b| format!("{b:02x}")).collect();
  hex
}

#[derive(Default, Serialize, Deserialize)]
pub struct PreReport {
  pub corpus_replayed: u64,
  pub corpus: Vec<(serde_json::Value, Vec<Violation>)>,
  pub harness_errors: Vec<String>,
  pub extra: Option<ExtraReport>,
}

static CUR_ITEM_PATH: std::sync::OnceLock<PathBuf> = std::sync::OnceLock::new();
static CUR_ITEM_SINCE: std::sync::Mutex<Option<Instant>> = std::sync::Mutex::new(None);

/// Corpus / extra layers name the item they are about to analyse, so that a
/// crash or hang of the code under test can be attributed (and timed).
pub fn set_current_item(item: &serde_json::Value) {
  if let Some(p) = CUR_ITEM_PATH.get() {
    let _ = std::fs::write(p, serde_json::to_string(item).unwrap());
    *CUR_ITEM_SINCE.lock().unwrap() = Some(Instant::now());
  }
}

pub fn clear_current_item() {
  if let Some(p) = CUR_ITEM_PATH.get() {
    let _ = std::fs::remove_file(p);
    *CUR_ITEM_SINCE.lock().unwrap() = None;
  }
}

/// Only this corpus file is analysed by corpus layers (replay of a
/// corpus-layer finding).
pub fn only_corpus_file() -> Option<String> {
  std::env::var("VP_ONLY_CORPUS_FILE").ok()
}

/// Child process of `check_main`: corpus replay and the extra layer.
pub fn pre_main<C>(spec: &PropSpec<C>, tier: Tier, seed: u64, out: &Path, cur: &Path) -> i32
where
  C: Serialize + DeserializeOwned + Clone + std::fmt::Debug + 'static,
{
  install_panic_hook();
  let _ = std::fs::remove_file(cur);
  let _ = CUR_ITEM_PATH.set(cur.to_path_buf());
  let limit = std::env::var("VP_CASE_TIMEOUT_S")
    .ok()
    .and_then(|s| s.parse().ok())
    .unwrap_or(120u64);
  std::thread::spawn(move || loop {
    std::thread::sleep(Duration::from_millis(500));
    let since = *CUR_ITEM_SINCE.lock().unwrap();
    if let Some(t) = since {
      if t.elapsed() > Duration::from_secs(limit) {
        std::process::exit(3);
      }
    }
  });
  let vd = verif_dir();
  let mut rep = PreReport::default();
  let corpus_dir = vd.join("corpus").join(spec.id);
  if let Ok(rd) = std::fs::read_dir(&corpus_dir) {
    let mut files: Vec<_> = rd.filter_map(|e| e.ok()).map(|e| e.path()).collect();
    files.sort();
    for f in files {
      if f.extension().and_then(|s| s.to_str()) != Some("json") {
        continue;
      }
      let text = std::fs::read_to_string(&f).unwrap();
      let json: serde_json::Value = match serde_json::from_str(&text) {
        Ok(j) => j,
        Err(e) => {
          rep.harness_errors.push(format!("corpus file {f:?} unreadable: {e}"));
          continue;
        }
      };
      rep.corpus_replayed += 1;
      set_current_item(&json);
      match replay_case(spec, tier, &json) {
        Ok(vs) => rep.corpus.push((json.clone(), vs)),
        Err(e) => rep.harness_errors.push(format!("corpus file {f:?}: {e}")),
      }
      clear_current_item();
    }
  }
  if let Some(extra) = spec.extra {
    rep.extra = Some(extra(tier, seed));
    clear_current_item();
  }
  std::fs::write(out, serde_json::to_string(&rep).unwrap()).expect("write pre report");
  0
}

/// Parent process: replays corpus, spawns workers, merges, writes evidence.
pub fn check_main<C>(spec: &PropSpec<C>, tier: Tier) -> i32
where
  C: Serialize + DeserializeOwned + Clone + std::fmt::Debug + 'static,
{
  install_panic_hook();
  let t0 = Instant::now();
  let seed = env_seed();
  let vd = verif_dir();
  let known = load_known(spec.id);
  let work_dir = vd.join("out").join("work").join(spec.id);
  let _ = std::fs::remove_dir_all(&work_dir);
  std::fs::create_dir_all(&work_dir).expect("create work dir");
  let replay_dir = vd.join("out").join("replays").join(spec.id);
  std::fs::create_dir_all(&replay_dir).expect("create replay dir");

  let mut violations: Vec<FoundViolation> = Vec::new();
  let mut known_hits: BTreeMap<String, u64> = BTreeMap::new();
  let mut harness_errors: Vec<String> = Vec::new();

  // 1 + 2. corpus replay and the deterministic extra layer run in a child
  // process, so that a stack overflow or a hang of the code under test is
  // attributed to an item instead of killing this process
  let mut merged = WorkerReport::default();
  let mut nontrivial: BTreeSet<u64> = BTreeSet::new();
  let mut exhaustive: Option<bool> = None;
  let mut notes: Vec<String> = Vec::new();
  let mut corpus_replayed = 0u64;
  {
    let exe = std::env::current_exe().expect("current exe");
    let out = work_dir.join("pre.json");
    let cur = work_dir.join("pre.cur.json");
    let status = std::process::Command::new(&exe)
      .arg("pre")
      .arg(spec.id)
      .arg(tier.as_str())
      .arg(seed.to_string())
      .arg(&out)
      .arg(&cur)
      .stdin(std::process::Stdio::null())
      .status()
      .expect("spawn pre");
    let rep: Option<PreReport> = std::fs::read_to_string(&out)
      .ok()
      .and_then(|t| serde_json::from_str(&t).ok());
    match rep {
      Some(pre) if status.success() => {
        corpus_replayed = pre.corpus_replayed;
        harness_errors.extend(pre.harness_errors);
        for (json, vs) in pre.corpus {
          for v in vs {
            if known.contains_key(&v.sig) {
              *known_hits.entry(v.sig.clone()).or_insert(0) += 1;
            } else if v.sig.contains("/panic/") && !spec.crash_is_violation {
              // excluded
            } else if !violations.iter().any(|x| x.sig == v.sig) {
              violations.push(FoundViolation {
                sig: v.sig,
                msg: v.msg,
                case: json.clone(),
                panic: false,
              });
            }
          }
        }
        if let Some(rep) = pre.extra {
          merged.evaluations += rep.evaluations;
          for h in rep.nontrivial_hashes {
            nontrivial.insert(h);
          }
          for (k, v) in rep.labels {
            *merged.labels.entry(k).or_insert(0) += v;
          }
          for s in rep.samples.into_iter().take(3) {
            merged.samples.push(s);
          }
          for (v, case) in rep.violations {
            if known.contains_key(&v.sig) {
              *known_hits.entry(v.sig.clone()).or_insert(0) += 1;
            } else if !violations.iter().any(|x| x.sig == v.sig) {
              violations.push(FoundViolation {
                sig: v.sig,
                msg: v.msg,
                case,
                panic: false,
              });
            }
          }
          exhaustive = rep.exhaustive;
          notes.extend(rep.notes);
        }
      }
      _ => {
        let item: Option<serde_json::Value> = std::fs::read_to_string(&cur)
          .ok()
          .and_then(|t| serde_json::from_str(&t).ok());
        let kind = if status.code() == Some(3) { "hang" } else { "crash" };
        match item {
          Some(item) if spec.crash_is_violation => {
            // confirm in a fresh process before reporting
            let p = replay_dir.join(format!("{kind}-{:016x}.json", hash_json(&item)));
            std::fs::write(&p, serde_json::to_string_pretty(&item).unwrap()).unwrap();
            let st = std::process::Command::new(&exe)
              .arg("replay")
              .arg(spec.id)
              .arg(&p)
              .env("VP_REPLAY_TIMEOUT_S", "150")
              .stdout(std::process::Stdio::null())
              .status();
            let confirmed = match st {
              Ok(s) => !(s.code() == Some(0) || s.code() == Some(1)),
              Err(_) => false,
            };
            if confirmed {
              violations.push(FoundViolation {
                sig: format!("{}/{kind}/corpus-layer", spec.id),
                msg: format!("confirmed {kind} in a fresh process while analysing {item}"),
                case: item,
                panic: true,
              });
            } else {
              harness_errors.push(format!(
                "{kind} in the corpus / extra layer on {item} did not reproduce; replay={}",
                p.display()
              ));
            }
          }
          Some(item) => harness_errors.push(format!(
            "{kind} in the corpus / extra layer ({status}) on {item}"
          )),
          None => harness_errors.push(format!(
            "the corpus / extra layer process died ({status}) outside any item"
          )),
        }
      }
    }
  }

  // 3. workers
  let total_cases = (spec.cases)(tier);
  let total_cases = std::env::var("VP_CASES")
    .ok()
    .and_then(|s| s.parse().ok())
    .unwrap_or(total_cases);
  let nw = num_workers().min(total_cases.max(1));
  let exe = std::env::current_exe().expect("current exe");
  let mut children = Vec::new();
  for w in 0..nw {
    let n = total_cases / nw + if w < total_cases % nw { 1 } else { 0 };
    let out = work_dir.join(format!("w{w}.json"));
    let cur = work_dir.join(format!("w{w}.cur.json"));
    let child = std::process::Command::new(&exe)
      .arg("worker")
      .arg(spec.id)
      .arg(tier.as_str())
      .arg(seed.to_string())
      .arg(w.to_string())
      .arg(n.to_string())
      .arg(&out)
      .arg(&cur)
      .stdin(std::process::Stdio::null())
      .spawn()
      .expect("spawn worker");
    children.push((w, child, out, cur));
  }
  let mut excluded_panics = Vec::new();
  let mut crashed: Vec<serde_json::Value> = Vec::new();
  let mut hangs: Vec<serde_json::Value> = Vec::new();
  let mut covered_hangs: BTreeSet<u64> = BTreeSet::new();
  for (w, mut child, out, cur) in children {
    let status = child.wait().expect("wait worker");
    if status.code() == Some(3) {
      if let Ok(t) = std::fs::read_to_string(out.with_extension("hang.json")) {
        if let Ok(r) = serde_json::from_str::<WorkerReport>(&t) {
          if let Some(h) = r.hang {
            if r.hang_phase == PHASE_COVERED {
              covered_hangs.insert(hash_json(&h));
            }
            hangs.push(h);
          }
        }
      }
      continue;
    }
    let rep: Option<WorkerReport> = std::fs::read_to_string(&out)
      .ok()
      .and_then(|t| serde_json::from_str(&t).ok());
    match rep {
      Some(rep) if status.success() => {
        merged.evaluations += rep.evaluations;
        merged.discarded += rep.discarded;
        merged.suppressed_repeat_hits += rep.suppressed_repeat_hits;
        for h in rep.nontrivial_hashes {
          nontrivial.insert(h);
        }
        for (k, v) in rep.labels {
          *merged.labels.entry(k).or_insert(0) += v;
        }
        if merged.samples.len() < 4 {
          merged.samples.extend(rep.samples.into_iter().take(1));
        }
        for (k, v) in rep.known_hits {
          *known_hits.entry(k).or_insert(0) += v;
        }
        for (k, v) in rep.known_samples {
          merged.known_samples.entry(k).or_insert(v);
        }
        excluded_panics.extend(rep.excluded_panics);
        for v in rep.violations {
          if !violations.iter().any(|x| x.sig == v.sig) {
            violations.push(v);
          }
        }
      }
      _ => {
        // the worker died: take the case it was running
        let case: Option<serde_json::Value> = std::fs::read_to_string(&cur)
          .ok()
          .and_then(|t| serde_json::from_str(&t).ok());
        match case {
          Some(c) => crashed.push(c),
          None => harness_errors
            .push(format!("worker {w} died ({status}) without a current case")),
        }
      }
    }
  }

  // confirm crashes / hangs in a fresh process
  for (kind, cases) in [("crash", &crashed), ("hang", &hangs)] {
    for c in cases.iter() {
      // one confirmed crash / hang is enough to report; the others are
      // almost always the same root cause
      if violations.iter().any(|v| v.sig == format!("{}/{kind}", spec.id)) {
        break;
      }
      // without a termination clause one confirmation attempt per kind is
      // enough for the harness-error report
      let covered = kind == "hang" && covered_hangs.contains(&hash_json(c));
      if !spec.crash_is_violation
        && !covered
        && harness_errors.iter().any(|e| e.starts_with(&format!("{kind} while running a case")))
      {
        continue;
      }
      let p = replay_dir.join(format!("{kind}-{:016x}.json", hash_json(c)));
      std::fs::write(&p, serde_json::to_string_pretty(c).unwrap()).unwrap();
      let st = std::process::Command::new(&exe)
        .arg("replay")
        .arg(spec.id)
        .arg(&p)
        .env("VP_REPLAY_TIMEOUT_S", "150")
        .stdout(std::process::Stdio::null())
        .status();
      let confirmed = match st {
        Ok(s) => !(s.code() == Some(0) || s.code() == Some(1)),
        Err(_) => false,
      };
      if confirmed && (spec.crash_is_violation || covered) {
        violations.push(FoundViolation {
          sig: format!("{}/{kind}", spec.id),
          msg: format!("confirmed {kind} in a fresh process"),
          case: c.clone(),
          panic: true,
        });
      } else {
        harness_errors.push(format!(
          "{kind} while running a case (confirmed={confirmed}); replay={}",
          p.display()
        ));
      }
    }
  }

  // 4. report
  let mut exit = 0;
  for (sig, n) in &known_hits {
    println!(
      "KNOWN-FINDING: property={} {} [signature={} hits={}]",
      spec.id,
      known.get(sig).cloned().unwrap_or_default(),
      sig,
      n
    );
  }
  for v in &violations {
    let p = replay_dir.join(format!("{}.json", sig_file_name(&v.sig)));
    std::fs::write(&p, serde_json::to_string_pretty(&v.case).unwrap()).unwrap();
    println!("VIOLATION property={} replay={}", spec.id, p.display());
    println!("  signature: {}", v.sig);
    for line in v.msg.lines().take(12) {
      println!("  {line}");
    }
    exit = 1;
  }
  // a case that crashed or hung was evaluated too
  let evaluations = merged.evaluations + corpus_replayed + crashed.len() as u64 + hangs.len() as u64;
  let discard_rate = if merged.evaluations > 0 {
    merged.discarded as f64 / merged.evaluations as f64
  } else {
    0.0
  };
  if discard_rate > 0.10 {
    harness_errors.push(format!("discard rate {discard_rate:.3} > 0.10"));
  }
  if !excluded_panics.is_empty()
    && (excluded_panics.len() as f64) > 0.02 * (merged.evaluations as f64) + 20.0
  {
    harness_errors.push("too many excluded panics".to_string());
  }
  let mut samples = merged.samples.clone();
  if samples.is_empty() {
    samples.push(serde_json::json!({"note": "no non-trivial case generated"}));
  }
  let evidence = serde_json::json!({
    "property_id": spec.id,
    "tier": tier.as_str(),
    "seed": seed as i64,
    "level": spec.level,
    "coverage": {
      "evaluations": evaluations,
      "distinct_nontrivial": nontrivial.len(),
      "rule": spec.rule,
      "samples": samples,
      "labels": merged.labels,
      "discarded": merged.discarded,
      "corpus_replayed": corpus_replayed,
      "workers": nw,
      "known_finding_hits": known_hits,
      "known_finding_samples": merged.known_samples,
      "suppressed_repeat_hits": merged.suppressed_repeat_hits,
      "excluded_panics": excluded_panics.iter().take(5).collect::<Vec<_>>(),
      "excluded_panic_count": excluded_panics.len(),
      "exhaustive": exhaustive.unwrap_or(false),
      "notes": notes,
      "harness_errors": harness_errors,
    },
    "assumptions": spec.assumptions,
    "wall_s": t0.elapsed().as_secs_f64(),
    "violations": violations.len(),
  });
  let ev_dir = vd.join("evidence");
  std::fs::create_dir_all(&ev_dir).unwrap();
  std::fs::write(
    ev_dir.join(format!("{}.json", spec.id)),
    serde_json::to_string_pretty(&evidence).unwrap(),
  )
  .expect("write evidence");
  println!(
    "{} {}: evaluations={} distinct_nontrivial={} known_hits={} violations={} wall={:.1}s",
    spec.id,
    tier.as_str(),
    evaluations,
    nontrivial.len(),
    known_hits.values().sum::<u64>(),
    violations.len(),
    t0.elapsed().as_secs_f64()
  );
  if std::env::var("VP_LABELS").is_ok() {
    for (k, v) in &merged.labels {
      println!("  label {k}: {v}");
    }
  }
  if exit == 0 && !harness_errors.is_empty() {
    for e in &harness_errors {
      eprintln!("HARNESS-ERROR: {e}");
    }
    return 2;
  }
  if exit == 0 && nontrivial.len() < 2 {
    eprintln!("HARNESS-ERROR: fewer than two distinct non-trivial cases");
    return 2;
  }
  exit
}

pub fn replay_main<C>(spec: &PropSpec<C>, tier: Tier, path: &Path) -> i32
where
  C: Serialize + DeserializeOwned + Clone + std::fmt::Debug + 'static,
{
  install_panic_hook();
  let known = load_known(spec.id);
  let text = match std::fs::read_to_string(path) {
    Ok(t) => t,
    Err(e) => {
      eprintln!("cannot read {path:?}: {e}");
      return 2;
    }
  };
  let json: serde_json::Value = match serde_json::from_str(&text) {
    Ok(j) => j,
    Err(e) => {
      eprintln!("cannot parse {path:?}: {e}");
      return 2;
    }
  };
  if let Ok(s) = std::env::var("VP_REPLAY_TIMEOUT_S") {
    let secs: u64 = s.parse().unwrap_or(150);
    std::thread::spawn(move || {
      std::thread::sleep(Duration::from_secs(secs));
      std::process::exit(4);
    });
  }
  let result = match (json.get("corpus_file").and_then(|f| f.as_str()), spec.extra) {
    (Some(file), Some(extra)) => {
      // a finding of the corpus layer: analyse that corpus file only
      std::env::set_var("VP_ONLY_CORPUS_FILE", file);
      let rep = extra(tier, env_seed());
      Ok(rep.violations.into_iter().map(|(v, _)| v).collect::<Vec<_>>())
    }
    _ => replay_case(spec, tier, &json),
  };
  match result {
    Ok(vs) => {
      let mut exit = 0;
      for v in vs {
        if let Some(what) = known.get(&v.sig) {
          println!("KNOWN-FINDING: property={} {} [signature={}]", spec.id, what, v.sig);
        } else {
          println!("VIOLATION property={} replay={}", spec.id, path.display());
          println!("  signature: {}", v.sig);
          for line in v.msg.lines().take(30) {
            println!("  {line}");
          }
          exit = 1;
        }
      }
      if exit == 0 {
        println!("{}: replay of {} holds", spec.id, path.display());
      }
      exit
    }
    Err(e) => {
      eprintln!("{e}");
      2
    }
  }
}

/// Generates `n` cases and prints them (generator inspection).
pub fn sample_main<C>(spec: &PropSpec<C>, tier: Tier, n: usize)
where
  C: Serialize + DeserializeOwned + Clone + std::fmt::Debug + 'static,
{
  let rng = TestRng::from_seed(
    RngAlgorithm::ChaCha,
    &seed_bytes(env_seed(), spec.id, 999, 0),
  );
  let mut runner = TestRunner::new_with_rng(Config::default(), rng);
  let strategy = (spec.strategy)(tier);
  for _ in 0..n {
    let tree = strategy.new_tree(&mut runner).unwrap();
    let case = tree.current();
    println!("{}", serde_json::to_string(&case).unwrap());
  }
}

/// Dispatch helper used by main.rs for one property.
pub fn dispatch<C>(spec: PropSpec<C>, args: &[String]) -> i32
where
  C: Serialize + DeserializeOwned + Clone + std::fmt::Debug + 'static,
{
  let tier_of = |s: &str| match s {
    "thorough" => Tier::Thorough,
    _ => Tier::Quick,
  };
  match args[0].as_str() {
    "check" => {
      let tier = args
        .get(2)
        .map(|s| tier_of(s))
        .or_else(|| std::env::var("VERIF_TIER").ok().map(|s| tier_of(&s)))
        .unwrap_or(Tier::Quick);
      check_main(&spec, tier)
    }
    "worker" => {
      let tier = tier_of(&args[2]);
      let seed: u64 = args[3].parse().unwrap();
      let w: u64 = args[4].parse().unwrap();
      let n: u64 = args[5].parse().unwrap();
      worker_main(
        &spec,
        tier,
        seed,
        w,
        n,
        Path::new(&args[6]),
        Path::new(&args[7]),
      );
      0
    }
    "pre" => {
      let tier = tier_of(&args[2]);
      let seed: u64 = args[3].parse().unwrap();
      pre_main(&spec, tier, seed, Path::new(&args[4]), Path::new(&args[5]))
    }
    "replay" => {
      let tier = std::env::var("VERIF_TIER")
        .ok()
        .map(|s| tier_of(&s))
        .unwrap_or(Tier::Quick);
      replay_main(&spec, tier, Path::new(&args[2]))
    }
    "sample" => {
      let n = args.get(2).and_then(|s| s.parse().ok()).unwrap_or(5);
      sample_main(&spec, Tier::Quick, n);
      0
    }
    other => {
      eprintln!("unknown mode {other}");
      2
    }
  }
}

/// Monotone index mapping (shrinks towards 0): maps a u16 onto 0..len.
pub fn idx(i: u16, len: usize) -> usize {
  if len == 0 {
    0
  } else {
    ((i as usize) * len) >> 16
  }
}

pub fn boxed<S: Strategy + 'static>(s: S) -> BoxedStrategy<S::Value> {
  s.boxed()
}
