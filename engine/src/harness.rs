//! Harness-side implementations of every trait deno_graph lets the caller
//! supply: loader (with gates, faults, log), executor, locker, resolver, npm
//! resolver; plus the poll loop that drives a build under a schedule.

use crate::world::{self, Entry, Opts, World};
use deno_graph::source::{
  CacheSetting, ChecksumIntegrityError, LoadError, LoadFuture, LoadOptions,
  LoadResponse, Loader, LoaderChecksum, Locker, NpmResolver, ResolutionKind,
  ResolveError, Resolver,
};
use deno_graph::{
  BuildOptions, ModuleGraph, ModuleSpecifier, NpmLoadError,
  NpmResolvePkgReqsResult, Range, ReferrerImports,
};
use deno_semver::package::{PackageNv, PackageReq};
use futures::FutureExt;
use serde::{Deserialize, Serialize};
use std::cell::RefCell;
use std::collections::{BTreeMap, BTreeSet, HashMap};
use std::future::Future;
use std::pin::Pin;
use std::rc::Rc;
use std::sync::Arc;
use std::task::{Context, Poll, Waker};
use url::Url;

#[derive(Clone, Debug)]
pub enum Served {
  Module {
    bytes: Arc<[u8]>,
    headers: Option<HashMap<String, String>>,
    final_spec: Url,
  },
  Redirect(Url),
  External,
  Err,
}

pub fn materialize(world: &World) -> BTreeMap<Url, Served> {
  let mut out = BTreeMap::new();
  for (k, e) in &world.entries {
    let Ok(url) = Url::parse(k) else { continue };
    let hdrs = |h: &world::Headers| {
      if h.is_empty() {
        None
      } else {
        Some(h.iter().cloned().collect::<HashMap<_, _>>())
      }
    };
    let served = match e {
      Entry::Src {
        lang,
        items,
        headers,
      } => Served::Module {
        bytes: world::render(*lang, items).into_bytes().into(),
        headers: hdrs(headers),
        final_spec: url.clone(),
      },
      Entry::Text { text, headers } => Served::Module {
        bytes: text.clone().into_bytes().into(),
        headers: hdrs(headers),
        final_spec: url.clone(),
      },
      Entry::Wasm { imports } => Served::Module {
        bytes: world::wasm_bytes(imports).into(),
        headers: None,
        final_spec: url.clone(),
      },
      Entry::Redirect { to } => match Url::parse(to) {
        Ok(t) => Served::Redirect(t),
        Err(_) => Served::Err,
      },
      Entry::External => Served::External,
      Entry::LoadErr => Served::Err,
      Entry::Alias { to } => match (Url::parse(to), world.entries.get(to)) {
        (
          Ok(t),
          Some(Entry::Src {
            lang,
            items,
            headers,
          }),
        ) => Served::Module {
          bytes: world::render(*lang, items).into_bytes().into(),
          headers: hdrs(headers),
          final_spec: t,
        },
        (Ok(t), Some(Entry::Text { text, headers })) => Served::Module {
          bytes: text.clone().into_bytes().into(),
          headers: hdrs(headers),
          final_spec: t,
        },
        (Ok(t), Some(Entry::Wasm { imports })) => Served::Module {
          bytes: world::wasm_bytes(imports).into(),
          headers: None,
          final_spec: t,
        },
        (Ok(t), _) => Served::Redirect(t),
        (Err(_), _) => Served::Err,
      },
    };
    out.insert(url, served);
  }
  out
}

#[derive(Clone, Debug, PartialEq, Eq, Serialize, Deserialize)]
pub struct LoadCall {
  pub seq: usize,
  pub spec: String,
  pub cache: String,
  pub checksum: Option<String>,
  pub in_dynamic_branch: bool,
  pub was_dynamic_root: bool,
  pub ensure_cached: bool,
}

#[derive(Debug)]
pub struct HarnessError(pub String);
impl std::fmt::Display for HarnessError {
  fn fmt(&self, f: &mut std::fmt::Formatter<'_>) -> std::fmt::Result {
    write!(f, "{}", self.0)
  }
}
impl std::error::Error for HarnessError {}
deno_error::js_error_wrapper!(HarnessError, JsHarnessError, "Error");

pub fn other_err(msg: &str) -> LoadError {
  LoadError::Other(Arc::new(JsHarnessError(HarnessError(msg.to_string()))))
}

// ---------------------------------------------------------------------------
// scheduler: gates released one at a time

#[derive(Default)]
pub struct Sched {
  gates: RefCell<Vec<GateState>>,
  pub enabled: bool,
  /// number of decision points at which >= 2 gates were closed
  pub contested: RefCell<usize>,
  pub max_outstanding: RefCell<usize>,
}

struct GateState {
  open: bool,
  waker: Option<Waker>,
  polled: bool,
}

pub struct Gate {
  sched: Rc<Sched>,
  id: usize,
}

impl Future for Gate {
  type Output = ();
  fn poll(self: Pin<&mut Self>, cx: &mut Context<'_>) -> Poll<()> {
    let mut gates = self.sched.gates.borrow_mut();
    let g = &mut gates[self.id];
    if g.open {
      Poll::Ready(())
    } else {
      g.waker = Some(cx.waker().clone());
      g.polled = true;
      Poll::Pending
    }
  }
}

impl Sched {
  pub fn new(enabled: bool) -> Rc<Sched> {
    Rc::new(Sched {
      enabled,
      ..Default::default()
    })
  }
  pub fn gate(self: &Rc<Self>) -> Gate {
    let mut gates = self.gates.borrow_mut();
    let id = gates.len();
    gates.push(GateState {
      open: !self.enabled,
      waker: None,
      polled: false,
    });
    Gate {
      sched: self.clone(),
      id,
    }
  }
  /// ids of gates that are closed and whose future has been polled
  pub fn outstanding(&self) -> Vec<usize> {
    self
      .gates
      .borrow()
      .iter()
      .enumerate()
      .filter(|(_, g)| !g.open && g.polled)
      .map(|(i, _)| i)
      .collect()
  }
  pub fn closed_unpolled(&self) -> Vec<usize> {
    self
      .gates
      .borrow()
      .iter()
      .enumerate()
      .filter(|(_, g)| !g.open && !g.polled)
      .map(|(i, _)| i)
      .collect()
  }
  pub fn open(&self, id: usize) {
    let w = {
      let mut gates = self.gates.borrow_mut();
      gates[id].open = true;
      gates[id].waker.take()
    };
    if let Some(w) = w {
      w.wake();
    }
  }
}

// ---------------------------------------------------------------------------
// loader

#[derive(Clone, Debug, Serialize, Deserialize, PartialEq, Eq)]
pub enum Fault {
  Missing,
  Error,
  ChecksumError,
  RedirectTo(String),
  RedirectSelf,
  External,
  FinalSpec(String),
  Bytes(Vec<u8>),
}

/// (specifier, attempt number starting at 0) -> fault. `attempt` counts load
/// calls for that specifier with a content-consuming cache setting.
pub type FaultPlan = BTreeMap<(String, u32), Fault>;

pub struct WorldLoader {
  pub served: RefCell<BTreeMap<Url, Served>>,
  pub log: RefCell<Vec<LoadCall>>,
  pub sched: Rc<Sched>,
  pub faults: FaultPlan,
  pub attempts: RefCell<BTreeMap<String, u32>>,
  pub faults_fired: RefCell<Vec<(String, u32)>>,
  /// URLs that answer `CacheSetting::Only`; `None` = nothing cached
  pub cache: Option<BTreeSet<Url>>,
  pub verify_checksums: bool,
  pub max_redirects: usize,
}

impl WorldLoader {
  pub fn new(served: BTreeMap<Url, Served>) -> Self {
    WorldLoader {
      served: RefCell::new(served),
      log: RefCell::new(Vec::new()),
      sched: Sched::new(false),
      faults: FaultPlan::new(),
      attempts: RefCell::new(BTreeMap::new()),
      faults_fired: RefCell::new(Vec::new()),
      cache: None,
      verify_checksums: true,
      max_redirects: 10,
    }
  }
  pub fn from_world(world: &World) -> Self {
    Self::new(materialize(world))
  }

  fn respond(
    &self,
    specifier: &ModuleSpecifier,
    options: &LoadOptions,
  ) -> Result<Option<LoadResponse>, LoadError> {
    if options.cache_setting == CacheSetting::Only {
      match &self.cache {
        Some(c) if c.contains(specifier) => {}
        _ => return Ok(None),
      }
    }
    let attempt = {
      let mut a = self.attempts.borrow_mut();
      let e = a.entry(specifier.to_string()).or_insert(0);
      let v = *e;
      *e += 1;
      v
    };
    let fault = self.faults.get(&(specifier.to_string(), attempt)).cloned();
    if fault.is_some() {
      self
        .faults_fired
        .borrow_mut()
        .push((specifier.to_string(), attempt));
    }
    let served = self.served.borrow().get(specifier).cloned();
    let served = match fault {
      None => served,
      Some(Fault::Missing) => None,
      Some(Fault::Error) => Some(Served::Err),
      Some(Fault::ChecksumError) => {
        return Err(LoadError::ChecksumIntegrity(ChecksumIntegrityError {
          actual: "injected".to_string(),
          expected: options
            .maybe_checksum
            .as_ref()
            .map(|c| c.as_str().to_string())
            .unwrap_or_default(),
        }));
      }
      Some(Fault::RedirectTo(t)) => match Url::parse(&t) {
        Ok(u) => Some(Served::Redirect(u)),
        Err(_) => Some(Served::Err),
      },
      Some(Fault::RedirectSelf) => Some(Served::Redirect(specifier.clone())),
      Some(Fault::External) => Some(Served::External),
      Some(Fault::FinalSpec(t)) => match (served, Url::parse(&t)) {
        (Some(Served::Module { bytes, headers, .. }), Ok(u)) => {
          Some(Served::Module {
            bytes,
            headers,
            final_spec: u,
          })
        }
        (s, _) => s,
      },
      Some(Fault::Bytes(b)) => Some(Served::Module {
        bytes: b.into(),
        headers: None,
        final_spec: specifier.clone(),
      }),
    };
    match served {
      None => Ok(None),
      Some(Served::Err) => Err(other_err("injected loader error")),
      Some(Served::External) => Ok(Some(LoadResponse::External {
        specifier: specifier.clone(),
      })),
      Some(Served::Redirect(to)) => {
        Ok(Some(LoadResponse::Redirect { specifier: to }))
      }
      Some(Served::Module {
        bytes,
        headers,
        final_spec,
      }) => {
        if self.verify_checksums {
          if let Some(c) = &options.maybe_checksum {
            c.check_source(&bytes)?;
          }
        }
        Ok(Some(LoadResponse::Module {
          content: bytes,
          mtime: None,
          specifier: final_spec,
          maybe_headers: headers,
        }))
      }
    }
  }

  fn record(&self, specifier: &ModuleSpecifier, o: &LoadOptions, ec: bool) {
    let mut log = self.log.borrow_mut();
    let seq = log.len();
    if std::env::var("VP_TRACE").is_ok() && seq < 40 {
      eprintln!("load#{seq} {specifier} cache={:?} asset={ec} dyn={}", o.cache_setting, o.in_dynamic_branch);
    }
    log.push(LoadCall {
      seq,
      spec: specifier.to_string(),
      cache: match o.cache_setting {
        CacheSetting::Only => "only",
        CacheSetting::Use => "use",
        CacheSetting::Reload => "reload",
      }
      .to_string(),
      checksum: o.maybe_checksum.as_ref().map(|c| c.as_str().to_string()),
      in_dynamic_branch: o.in_dynamic_branch,
      was_dynamic_root: o.was_dynamic_root,
      ensure_cached: ec,
    });
  }
}

impl Loader for WorldLoader {
  fn max_redirects(&self) -> usize {
    self.max_redirects
  }

  fn load(
    &self,
    specifier: &ModuleSpecifier,
    options: LoadOptions,
  ) -> LoadFuture {
    self.record(specifier, &options, false);
    let resp = self.respond(specifier, &options);
    let gate = self.sched.gate();
    async move {
      gate.await;
      resp
    }
    .boxed_local()
  }

  fn ensure_cached(
    &self,
    specifier: &ModuleSpecifier,
    options: LoadOptions,
  ) -> deno_graph::source::EnsureCachedFuture {
    self.ensure_cached_impl(specifier, options)
  }
}

impl WorldLoader {
  /// `Loader::ensure_cached` as a loader with a cache would implement it: the
  /// same lookup (and checksum verification), without returning the bytes.
  fn ensure_cached_impl(
    &self,
    specifier: &ModuleSpecifier,
    options: LoadOptions,
  ) -> deno_graph::source::EnsureCachedFuture {
    use deno_graph::source::CacheResponse;
    self.record(specifier, &options, true);
    let resp = self.respond(specifier, &options).map(|r| {
      r.map(|r| match r {
        LoadResponse::Redirect { specifier } => CacheResponse::Redirect { specifier },
        LoadResponse::External { .. } | LoadResponse::Module { .. } => CacheResponse::Cached,
      })
    });
    let gate = self.sched.gate();
    async move {
      gate.await;
      resp
    }
    .boxed_local()
  }
}

// ---------------------------------------------------------------------------
// executor

pub struct InlineExecutor;
impl deno_graph::Executor for InlineExecutor {
  fn execute(
    &self,
    fut: Pin<Box<dyn Future<Output = ()> + 'static>>,
  ) -> Pin<Box<dyn Future<Output = ()> + 'static>> {
    fut
  }
}

// ---------------------------------------------------------------------------
// locker

#[derive(Clone, Debug, PartialEq, Eq, Serialize, Deserialize)]
pub enum LockCall {
  GetRemote(String),
  HasRemote(String),
  SetRemote(String, String),
  GetManifest(String),
  SetManifest(String, String),
}

#[derive(Default, Debug)]
pub struct RecLocker {
  pub remote: BTreeMap<String, String>,
  pub manifests: BTreeMap<String, String>,
  pub calls: RefCell<Vec<LockCall>>,
}

impl Locker for RecLocker {
  fn get_remote_checksum(
    &self,
    specifier: &ModuleSpecifier,
  ) -> Option<LoaderChecksum> {
    self
      .calls
      .borrow_mut()
      .push(LockCall::GetRemote(specifier.to_string()));
    self
      .remote
      .get(specifier.as_str())
      .map(|s| LoaderChecksum::new(s.clone()))
  }
  fn has_remote_checksum(&self, specifier: &ModuleSpecifier) -> bool {
    self
      .calls
      .borrow_mut()
      .push(LockCall::HasRemote(specifier.to_string()));
    self.remote.contains_key(specifier.as_str())
  }
  fn set_remote_checksum(
    &mut self,
    specifier: &ModuleSpecifier,
    checksum: LoaderChecksum,
  ) {
    self.calls.borrow_mut().push(LockCall::SetRemote(
      specifier.to_string(),
      checksum.as_str().to_string(),
    ));
    self
      .remote
      .insert(specifier.to_string(), checksum.into_string());
  }
  fn get_pkg_manifest_checksum(
    &self,
    package_nv: &PackageNv,
  ) -> Option<LoaderChecksum> {
    self
      .calls
      .borrow_mut()
      .push(LockCall::GetManifest(package_nv.to_string()));
    self
      .manifests
      .get(&package_nv.to_string())
      .map(|s| LoaderChecksum::new(s.clone()))
  }
  fn set_pkg_manifest_checksum(
    &mut self,
    package_nv: &PackageNv,
    checksum: LoaderChecksum,
  ) {
    self.calls.borrow_mut().push(LockCall::SetManifest(
      package_nv.to_string(),
      checksum.as_str().to_string(),
    ));
    self
      .manifests
      .insert(package_nv.to_string(), checksum.into_string());
  }
}

// ---------------------------------------------------------------------------
// resolver

#[derive(Debug)]
pub struct TableResolver {
  pub level: u8,
}

impl Resolver for TableResolver {
  fn default_jsx_import_source(
    &self,
    _referrer: &ModuleSpecifier,
  ) -> Option<String> {
    (self.level >= 2).then(|| "react".to_string())
  }
  fn default_jsx_import_source_types(
    &self,
    _referrer: &ModuleSpecifier,
  ) -> Option<String> {
    (self.level >= 2).then(|| "types-react".to_string())
  }
  fn resolve(
    &self,
    specifier_text: &str,
    referrer_range: &Range,
    _kind: ResolutionKind,
  ) -> Result<ModuleSpecifier, ResolveError> {
    for (bare, to) in world::RESOLVER_TABLE {
      if specifier_text == *bare {
        return Ok(Url::parse(to).unwrap());
      }
    }
    Ok(deno_graph::resolve_import(
      specifier_text,
      &referrer_range.specifier,
    )?)
  }
  fn resolve_types(
    &self,
    specifier: &ModuleSpecifier,
  ) -> Result<Option<(ModuleSpecifier, Option<Range>)>, ResolveError> {
    if self.level >= 2 && specifier.as_str() == "file:///c.js" {
      // like real resolvers, name the place the information came from
      return Ok(Some((
        Url::parse("file:///f.d.ts").unwrap(),
        Some(Range {
          specifier: specifier.clone(),
          range: deno_graph::PositionRange::zeroed(),
          resolution_mode: None,
        }),
      )));
    }
    Ok(None)
  }
}

// ---------------------------------------------------------------------------
// npm resolver

#[derive(Debug, Default)]
pub struct PlanNpmResolver {
  /// package names whose resolution fails
  pub failing: BTreeSet<String>,
  pub dep_graph_fails: bool,
  pub record: bool,
  pub calls: RefCell<Vec<Vec<String>>>,
}

#[async_trait::async_trait(?Send)]
impl NpmResolver for PlanNpmResolver {
  fn load_and_cache_npm_package_info(&self, _package_name: &str) {}

  async fn resolve_pkg_reqs(
    &self,
    package_reqs: &[PackageReq],
  ) -> NpmResolvePkgReqsResult {
    if self.record {
      self
        .calls
        .borrow_mut()
        .push(package_reqs.iter().map(|r| r.to_string()).collect());
    }
    let results: Vec<Result<(), NpmLoadError>> = package_reqs
      .iter()
      .map(|r| {
        if self.failing.contains(r.name.as_str()) {
          Err(NpmLoadError::PackageReqResolution(Arc::new(JsHarnessError(
            HarnessError(format!("npm resolution failed for {}", r)),
          ))))
        } else {
          Ok(())
        }
      })
      .collect();
    let any_err = results.iter().any(|r| r.is_err());
    NpmResolvePkgReqsResult {
      results,
      dep_graph_result: if self.dep_graph_fails && !any_err {
        Err(Arc::new(JsHarnessError(HarnessError(
          "npm dependency graph failed".to_string(),
        ))))
      } else {
        Ok(())
      },
    }
  }
}

// ---------------------------------------------------------------------------
// driving a build

#[derive(Clone, Debug, Default, Serialize, Deserialize, PartialEq, Eq)]
pub struct Schedule {
  /// choice among currently outstanding gates, mapped monotonically
  pub choices: Vec<u16>,
  /// what to do when the choices run out: 0 = FIFO, 1 = LIFO
  pub tail: u8,
}

#[derive(Debug, Default, Clone)]
pub struct DriveStats {
  pub steps: usize,
  pub contested: usize,
  pub max_outstanding: usize,
  pub deadlock: bool,
  /// number of outstanding gates at every decision point
  pub options: Vec<usize>,
}

fn noop_waker() -> Waker {
  futures::task::noop_waker()
}

/// Polls `fut` to completion, opening one gate per step as the schedule says.
pub fn drive<F: Future>(
  fut: F,
  sched: &Rc<Sched>,
  schedule: &Schedule,
) -> Result<(F::Output, DriveStats), DriveStats> {
  let mut fut = Box::pin(fut);
  let waker = noop_waker();
  let mut cx = Context::from_waker(&waker);
  let mut stats = DriveStats::default();
  let mut choice_i = 0usize;
  loop {
    if let Poll::Ready(v) = fut.as_mut().poll(&mut cx) {
      return Ok((v, stats));
    }
    stats.steps += 1;
    if stats.steps > 100_000 {
      stats.deadlock = true;
      return Err(stats);
    }
    let out = sched.outstanding();
    if out.is_empty() {
      // gates created but never polled (e.g. a future that is awaited later)
      let unpolled = sched.closed_unpolled();
      if unpolled.is_empty() {
        stats.deadlock = true;
        return Err(stats);
      }
      // opening an unpolled gate is always safe: it only makes a future ready
      sched.open(unpolled[0]);
      continue;
    }
    stats.max_outstanding = stats.max_outstanding.max(out.len());
    stats.options.push(out.len());
    if out.len() >= 2 {
      stats.contested += 1;
    }
    let pick = if choice_i < schedule.choices.len() {
      let c = schedule.choices[choice_i];
      choice_i += 1;
      crate::runner::idx(c, out.len())
    } else if schedule.tail == 1 {
      out.len() - 1
    } else {
      0
    };
    sched.open(out[pick]);
  }
}

thread_local! {
  /// A module analyser that remembers what it parsed, shared by every build
  /// and reload made on this thread while it is set (how an embedder that
  /// keeps one `CapturingModuleAnalyzer` per session uses the crate).
  pub static SHARED_ANALYZER: std::cell::RefCell<Option<std::rc::Rc<deno_graph::ast::CapturingModuleAnalyzer>>> =
    const { std::cell::RefCell::new(None) };
}

pub struct BuildEnv<'a> {
  pub loader: &'a WorldLoader,
  pub opts: &'a Opts,
  pub locker: Option<&'a mut dyn Locker>,
  pub npm: Option<&'a PlanNpmResolver>,
  pub jsr_version_resolver: Option<deno_graph::packages::JsrVersionResolver>,
  pub prefer_cached: bool,
}

pub fn parse_roots(roots: &[String]) -> Vec<ModuleSpecifier> {
  roots.iter().filter_map(|r| Url::parse(r).ok()).collect()
}

pub fn parse_imports(imports: &[(String, Vec<String>)]) -> Vec<ReferrerImports> {
  imports
    .iter()
    .filter_map(|(r, i)| {
      Some(ReferrerImports {
        referrer: Url::parse(r).ok()?,
        imports: i.clone(),
      })
    })
    .collect()
}

/// Runs `graph.build(..)` (or reload) synchronously under the given schedule.
pub fn build_into(
  graph: &mut ModuleGraph,
  roots: Vec<ModuleSpecifier>,
  imports: Vec<ReferrerImports>,
  env: BuildEnv<'_>,
  schedule: &Schedule,
  reload: bool,
) -> Result<DriveStats, DriveStats> {
  static RESOLVER1: TableResolver = TableResolver { level: 1 };
  static RESOLVER2: TableResolver = TableResolver { level: 2 };
  static EXECUTOR: InlineExecutor = InlineExecutor;
  thread_local! {
    static DEFAULT_NPM: &'static PlanNpmResolver =
      Box::leak(Box::new(PlanNpmResolver { record: false, ..Default::default() }));
  }
  let resolver: Option<&dyn Resolver> = match env.opts.resolver {
    0 => None,
    1 => Some(&RESOLVER1),
    _ => Some(&RESOLVER2),
  };
  let npm: Option<&dyn NpmResolver> = if env.opts.npm_resolver {
    Some(match env.npm {
      Some(n) => n as &dyn NpmResolver,
      None => DEFAULT_NPM.with(|n| *n) as &dyn NpmResolver,
    })
  } else {
    None
  };
  let shared_analyzer = SHARED_ANALYZER.with(|a| a.borrow().clone());
  let mut options = BuildOptions {
    is_dynamic: env.opts.is_dynamic,
    skip_dynamic_deps: env.opts.skip_dynamic_deps,
    unstable_bytes_imports: env.opts.unstable_bytes,
    unstable_text_imports: env.opts.unstable_text,
    unstable_css_imports: env.opts.unstable_css,
    executor: &EXECUTOR,
    locker: env.locker,
    resolver,
    npm_resolver: npm,
    passthrough_jsr_specifiers: env.opts.passthrough_jsr,
    prefer_cached_jsr_versions: env.prefer_cached,
    jsr_version_resolver: match env.jsr_version_resolver {
      Some(r) => std::borrow::Cow::Owned(r),
      None => Default::default(),
    },
    ..Default::default()
  };
  if let Some(a) = &shared_analyzer {
    // BuildOptions has one lifetime for all its borrows (the locker's among
    // them); the Rc is held by this frame until the build has finished, so
    // lengthening the borrow is sound
    let r: &deno_graph::ast::CapturingModuleAnalyzer = a.as_ref();
    let r: &'static deno_graph::ast::CapturingModuleAnalyzer = unsafe { std::mem::transmute(r) };
    options.module_analyzer = r;
  }
  let sched = env.loader.sched.clone();
  let _keep_alive = shared_analyzer.clone();
  let r = if reload {
    drive(graph.reload(roots, env.loader, options), &sched, schedule)
  } else {
    drive(
      graph.build(roots, imports, env.loader, options),
      &sched,
      schedule,
    )
  };
  r.map(|(_, s)| s)
}

/// Convenience: fresh graph, identity schedule.
pub fn build_simple(
  world: &World,
  roots: &[String],
  imports: &[(String, Vec<String>)],
  opts: &Opts,
) -> (ModuleGraph, WorldLoader) {
  let loader = WorldLoader::from_world(world);
  let mut graph = ModuleGraph::new(opts.graph_kind());
  build_into(
    &mut graph,
    parse_roots(roots),
    parse_imports(imports),
    BuildEnv {
      loader: &loader,
      opts,
      locker: None,
      npm: None,
      jsr_version_resolver: None,
      prefer_cached: false,
    },
    &Schedule::default(),
    false,
  )
  .expect("ungated build cannot deadlock");
  (graph, loader)
}
