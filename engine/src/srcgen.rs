//! Generator of dependency-bearing source text that *records*, for every
//! dependency it writes, the cooked specifier and its byte range in the final
//! text. The analyser under test never sees this record.

use proptest::prelude::*;
use serde::{Deserialize, Serialize};

#[derive(Clone, Copy, Debug, Serialize, Deserialize, PartialEq, Eq)]
pub enum Mt {
  Ts,
  Tsx,
  Js,
  Jsx,
  Dts,
  Mjs,
  Mts,
  Cjs,
  Cts,
  Dmts,
  Dcts,
}

impl Mt {
  pub fn is_ts(self) -> bool {
    matches!(self, Mt::Ts | Mt::Tsx | Mt::Dts | Mt::Mts | Mt::Cts | Mt::Dmts | Mt::Dcts)
  }
  pub fn is_js_family(self) -> bool {
    matches!(self, Mt::Js | Mt::Jsx | Mt::Mjs | Mt::Cjs)
  }
  pub fn is_declaration(self) -> bool {
    matches!(self, Mt::Dts | Mt::Dmts | Mt::Dcts)
  }
  pub fn is_jsx(self) -> bool {
    matches!(self, Mt::Tsx | Mt::Jsx)
  }
  pub fn media_type(self) -> deno_graph::MediaType {
    use deno_graph::MediaType as M;
    match self {
      Mt::Ts => M::TypeScript,
      Mt::Tsx => M::Tsx,
      Mt::Js => M::JavaScript,
      Mt::Jsx => M::Jsx,
      Mt::Dts => M::Dts,
      Mt::Mjs => M::Mjs,
      Mt::Mts => M::Mts,
      Mt::Cjs => M::Cjs,
      Mt::Cts => M::Cts,
      Mt::Dmts => M::Dmts,
      Mt::Dcts => M::Dcts,
    }
  }
  pub fn url(self) -> &'static str {
    match self {
      Mt::Ts => "file:///m.ts",
      Mt::Tsx => "file:///m.tsx",
      Mt::Js => "file:///m.js",
      Mt::Jsx => "file:///m.jsx",
      Mt::Dts => "file:///m.d.ts",
      Mt::Mjs => "file:///m.mjs",
      Mt::Mts => "file:///m.mts",
      Mt::Cjs => "file:///m.cjs",
      Mt::Cts => "file:///m.cts",
      Mt::Dmts => "file:///m.d.mts",
      Mt::Dcts => "file:///m.d.cts",
    }
  }
}

/// How a specifier is written as a string literal.
#[derive(Clone, Copy, Debug, Serialize, Deserialize, PartialEq, Eq)]
pub enum Quote {
  Double,
  Single,
  /// double quotes with the first character written as a \u escape
  EscapedU,
  /// double quotes with the last character written as a \x escape
  EscapedX,
}

#[derive(Clone, Debug, Serialize, Deserialize, PartialEq, Eq)]
pub enum Piece {
  /// whitespace / comment trivia (index into TRIVIA)
  Trivia(u8),
  Import { spec: u8, q: Quote, attr: u8, types: Option<(u8, u8)>, form: u8 },
  SideEffect { spec: u8, q: Quote },
  ExportFrom { spec: u8, q: Quote, star: u8 },
  ImportType { spec: u8, q: Quote, export: bool },
  ImportTypeExpr { spec: u8, q: Quote, nested: bool },
  ImportEquals { spec: u8, q: Quote, export: bool },
  DeclareModule { spec: u8, inner: Option<u8> },
  Dynamic { spec: u8, q: Quote, template: bool, attr: u8, types: Option<(u8, u8)>, ctx: u8, phase: u8 },
  DynamicTemplate { prefix: u8, ctx: u8 },
  DynamicOpaque,
  Require { spec: u8, q: Quote, ctx: u8 },
  Namespace { inner: Vec<Piece> },
  JsDoc { spec: u8, style: u8 },
  Filler(u8),
}

#[derive(Clone, Debug, Serialize, Deserialize, PartialEq, Eq)]
pub struct Program {
  pub mt: Mt,
  pub shebang: bool,
  /// head pragmas: (kind, spec, style) kind 0 ref path, 1 ref types,
  /// 2 ts-self-types, 3 jsxImportSource, 4 jsxImportSourceTypes
  pub head: Vec<(u8, u8, u8)>,
  pub pieces: Vec<Piece>,
  /// sourceMappingURL: (spec, style 0 `//#`, 1 `//@`, 2 block comment)
  pub source_map: Option<(u8, u8)>,
  /// line ending used by statement terminators: 0 LF, 1 CRLF
  pub eol: u8,
  /// the module consists of the (optional) shebang and the head comments
  /// only: no statement for them to lead, no pieces, no source map
  #[serde(default)]
  pub comments_only: bool,
}

pub const SPECS: &[&str] = &[
  "./a.ts",
  "./b.js",
  "../c/d.ts",
  "https://h.test/x.ts",
  "npm:pkg@1",
  "jsr:@s/a@^1",
  "./é.ts",
  "./日本.ts",
  "./😀.ts",
  "bare",
  "./with space.ts",
  "node:fs",
];

pub const TRIVIA: &[&str] = &[
  " ",
  "\n",
  "\r\n",
  "\t",
  "/* plain */",
  "/* é ü */",
  "/* 日本語 */",
  "/* 😀 astral */",
  "// line\n",
  "// é😀 line\r\n",
  "/*\n multi\n line */",
  "\n\n",
];

const ATTR_TYPES: &[Option<&str>] = &[None, None, None, Some("json"), Some("text"), Some("bytes")];

#[derive(Clone, Debug, PartialEq, Eq, PartialOrd, Ord)]
pub enum ExpKind {
  Static(&'static str),
  Dynamic(&'static str),
  RefPath,
  RefTypes,
  SelfTypes,
  Jsx,
  JsxTypes,
  JsDoc,
  SourceMap,
}

#[derive(Clone, Debug, PartialEq, Eq, PartialOrd, Ord)]
pub struct Exp {
  pub kind: ExpKind,
  /// cooked specifier text (for template arguments: the rendered parts)
  pub text: String,
  /// byte range in the final source
  pub range: (usize, usize),
  pub attr_type: Option<String>,
  pub side_effect: bool,
  /// `@ts-types` / `@deno-types` override: (text, byte range)
  pub types: Option<(String, (usize, usize))>,
}

pub struct Built {
  pub text: String,
  pub expected: Vec<Exp>,
  pub pragma_comments: Vec<PragmaComment>,
}

/// Where a `@ts-types` / `@deno-types` pragma comment sits (for building the
/// legacy `moduleGraph1` rendering, which stores leading comments).
#[derive(Clone, Debug)]
pub struct PragmaComment {
  pub spec_range: (usize, usize),
  /// byte offset of the `//` or `/*`
  pub comment_start: usize,
  /// comment text as swc stores it (without the delimiters)
  pub comment_text: String,
  pub deno_types: bool,
}

struct B {
  out: String,
  exp: Vec<Exp>,
  pragmas: Vec<PragmaComment>,
  n: usize,
  eol: &'static str,
  mt: Mt,
}

fn spec_of(i: u8) -> &'static str {
  SPECS[i as usize % SPECS.len()]
}

impl B {
  fn lit(&mut self, spec: &str, q: Quote) -> (usize, usize) {
    let start = self.out.len();
    let mut chars: Vec<char> = spec.chars().collect();
    match q {
      Quote::Double => {
        self.out.push('"');
        self.out.push_str(spec);
        self.out.push('"');
      }
      Quote::Single => {
        self.out.push('\'');
        self.out.push_str(spec);
        self.out.push('\'');
      }
      Quote::EscapedU => {
        self.out.push('"');
        let first = chars.remove(0);
        let mut buf = [0u16; 2];
        for u in first.encode_utf16(&mut buf) {
          self.out.push_str(&format!("\\u{:04x}", u));
        }
        self.out.extend(chars);
        self.out.push('"');
      }
      Quote::EscapedX => {
        self.out.push('"');
        let last = chars.pop().unwrap();
        self.out.extend(chars);
        if (last as u32) < 0x100 {
          self.out.push_str(&format!("\\x{:02x}", last as u32));
        } else {
          self.out.push(last);
        }
        self.out.push('"');
      }
    }
    (start, self.out.len())
  }

  fn types_pragma(&mut self, t: (u8, u8)) -> (String, (usize, usize)) {
    // the pragma must be the last comment before the statement
    let spec = spec_of(t.0).replace(' ', "_");
    let (open, close) = if t.1 % 2 == 0 { ("// ", "\n") } else { ("/* ", " */ ") };
    let comment_start = self.out.len();
    self.out.push_str(open);
    let range;
    match t.1 % 6 {
      0 | 1 => {
        self.out.push_str("@ts-types=");
        let s = self.out.len();
        self.out.push_str(&format!("\"{spec}\""));
        range = (s, self.out.len());
      }
      2 | 3 => {
        self.out.push_str("@deno-types=");
        let s = self.out.len();
        self.out.push_str(&format!("'{spec}'"));
        range = (s, self.out.len());
      }
      _ => {
        // quoteless form
        self.out.push_str("@deno-types=");
        let s = self.out.len();
        self.out.push_str(&spec);
        range = (s, self.out.len());
      }
    }
    let text_end = self.out.len() + if close.starts_with(' ') { 1 } else { 0 };
    self.out.push_str(close);
    let comment_text = self.out[comment_start + 2..text_end].to_string();
    self.pragmas.push(PragmaComment {
      spec_range: range,
      comment_start,
      comment_text,
      deno_types: t.1 % 6 >= 2,
    });
    (spec, range)
  }

  fn with_clause(&mut self, attr: u8) -> Option<String> {
    if attr == 6 {
      // an empty attribute clause
      self.out.push_str(" with {}");
      return None;
    }
    let a = ATTR_TYPES[attr as usize % ATTR_TYPES.len()];
    if let Some(a) = a {
      self.out.push_str(&format!(" with {{ type: \"{a}\" }}"));
    }
    a.map(|s| s.to_string())
  }

  fn end(&mut self) {
    self.out.push(';');
    self.out.push_str(self.eol);
  }

  fn piece(&mut self, p: &Piece, in_ns: bool) {
    self.n += 1;
    let n = self.n;
    let ts = self.mt.is_ts();
    let dts = self.mt.is_declaration();
    // CommonJS flavours are parsed as scripts: no ES import / export syntax
    let cjs = matches!(self.mt, Mt::Cjs | Mt::Cts | Mt::Dcts);
    match p {
      Piece::Trivia(i) => self.out.push_str(TRIVIA[*i as usize % TRIVIA.len()]),
      Piece::Filler(i) => {
        if dts {
          self.out.push_str(&format!("{}declare const f{n}: number", if cjs { "" } else { "export " }));
        } else {
          match i % 3 {
            0 => self.out.push_str(&format!("{}const f{n} = {n}", if cjs { "" } else { "export " })),
            1 => self.out.push_str(&format!("const s{n} = \"not an import 'x'\"")),
            _ => self.out.push_str(&format!("function g{n}() {{ return \"é😀\"; }}")),
          }
        }
        self.end();
      }
      Piece::Import { spec, q, attr, types, form } => {
        if cjs {
          return;
        }
        if in_ns {
          return;
        }
        let types = types.map(|t| self.types_pragma(t));
        let (kw, kind): (&str, &'static str) = match form % 4 {
          0 => ("import d", "import"),
          1 => ("import * as d", "import"),
          2 => ("import { a as d", "import"),
          _ => ("import d", "import"),
        };
        self.out.push_str(kw);
        self.out.push_str(&format!("{n}"));
        if form % 4 == 2 {
          self.out.push_str(" }");
        }
        self.out.push_str(" from ");
        let range = self.lit(spec_of(*spec), *q);
        let attr_type = self.with_clause(*attr);
        self.end();
        self.exp.push(Exp {
          kind: ExpKind::Static(kind),
          text: spec_of(*spec).to_string(),
          range,
          attr_type,
          side_effect: false,
          types,
        });
      }
      Piece::SideEffect { spec, q } => {
        if cjs {
          return;
        }
        if in_ns {
          return;
        }
        self.out.push_str("import ");
        let range = self.lit(spec_of(*spec), *q);
        self.end();
        self.exp.push(Exp {
          kind: ExpKind::Static("import"),
          text: spec_of(*spec).to_string(),
          range,
          attr_type: None,
          side_effect: true,
          types: None,
        });
      }
      Piece::ExportFrom { spec, q, star } => {
        if cjs {
          return;
        }
        if in_ns {
          return;
        }
        match star % 3 {
          0 => self.out.push_str(&format!("export {{ a as x{n} }} from ")),
          1 => self.out.push_str("export * from "),
          _ => self.out.push_str(&format!("export * as ns{n} from ")),
        }
        let range = self.lit(spec_of(*spec), *q);
        self.end();
        self.exp.push(Exp {
          kind: ExpKind::Static("export"),
          text: spec_of(*spec).to_string(),
          range,
          attr_type: None,
          side_effect: false,
          types: None,
        });
      }
      Piece::ImportType { spec, q, export } => {
        if cjs {
          return;
        }
        if !ts || in_ns {
          return;
        }
        if *export {
          self.out.push_str(&format!("export type {{ T as X{n} }} from "));
        } else {
          self.out.push_str(&format!("import type {{ T{n} }} from "));
        }
        let range = self.lit(spec_of(*spec), *q);
        self.end();
        self.exp.push(Exp {
          kind: ExpKind::Static(if *export { "exportType" } else { "importType" }),
          text: spec_of(*spec).to_string(),
          range,
          attr_type: None,
          side_effect: false,
          types: None,
        });
      }
      Piece::ImportTypeExpr { spec, q, nested } => {
        if !ts {
          return;
        }
        // `import("x")` types only take plain string literals
        let q = match q {
          Quote::Single => Quote::Single,
          _ => Quote::Double,
        };
        if *nested {
          self.out.push_str(&format!("type Q{n} = Array<{{ p: import("));
        } else {
          self.out.push_str(&format!("type Q{n} = import("));
        }
        let range = self.lit(spec_of(*spec), q);
        if *nested {
          self.out.push_str(").X }>");
        } else {
          self.out.push_str(").X");
        }
        self.end();
        self.exp.push(Exp {
          kind: ExpKind::Static("importType"),
          text: spec_of(*spec).to_string(),
          range,
          attr_type: None,
          side_effect: false,
          types: None,
        });
      }
      Piece::ImportEquals { spec, q, export } => {
        if !ts || dts {
          return;
        }
        if *export && !in_ns {
          self.out.push_str(&format!("export import q{n} = require("));
        } else {
          self.out.push_str(&format!("import q{n} = require("));
        }
        let range = self.lit(spec_of(*spec), *q);
        self.out.push(')');
        self.end();
        self.exp.push(Exp {
          kind: ExpKind::Static(if *export && !in_ns { "exportEquals" } else { "importEquals" }),
          text: spec_of(*spec).to_string(),
          range,
          attr_type: None,
          side_effect: false,
          types: None,
        });
      }
      Piece::DeclareModule { spec, inner } => {
        if !ts || in_ns {
          return;
        }
        self.out.push_str("declare module ");
        let range = self.lit(spec_of(*spec), Quote::Double);
        self.exp.push(Exp {
          kind: ExpKind::Static("maybeTsModuleAugmentation"),
          text: spec_of(*spec).to_string(),
          range,
          attr_type: None,
          side_effect: false,
          types: None,
        });
        self.out.push_str(" { ");
        if let Some(i) = inner {
          self.out.push_str("import type { I } from ");
          let range = self.lit(spec_of(*i), Quote::Double);
          self.out.push_str("; ");
          self.exp.push(Exp {
            kind: ExpKind::Static("importType"),
            text: spec_of(*i).to_string(),
            range,
            attr_type: None,
            side_effect: false,
            types: None,
          });
        }
        self.out.push('}');
        self.out.push_str(self.eol);
      }
      Piece::Dynamic { spec, q, template, attr, types, ctx, phase } => {
        if dts {
          return;
        }
        let (open, close) = ctx_wrap(*ctx, n, in_ns);
        self.out.push_str(&open);
        let types = types.map(|t| {
          self.out.push_str(self.eol);
          self.types_pragma(t)
        });
        let (callee, kind): (&str, &'static str) = match phase % 5 {
          3 => ("import.source(", "importSource"),
          4 => ("import.defer(", "importDefer"),
          _ => ("import(", "import"),
        };
        self.out.push_str(callee);
        let range = if *template {
          // a template without substitutions, with the same escapes a string
          // literal may carry (the cooked text is the specifier)
          let s = self.out.len();
          self.out.push('`');
          let mut chars: Vec<char> = spec_of(*spec).chars().collect();
          match q {
            Quote::EscapedU => {
              let first = chars.remove(0);
              let mut buf = [0u16; 2];
              for u in first.encode_utf16(&mut buf) {
                self.out.push_str(&format!("\\u{:04x}", u));
              }
              self.out.extend(chars);
            }
            Quote::EscapedX => {
              let last = chars.pop().unwrap();
              self.out.extend(chars);
              if (last as u32) < 0x100 {
                self.out.push_str(&format!("\\x{:02x}", last as u32));
              } else {
                self.out.push(last);
              }
            }
            _ => self.out.push_str(spec_of(*spec)),
          }
          self.out.push('`');
          (s, self.out.len())
        } else {
          self.lit(spec_of(*spec), *q)
        };
        let a = if *attr == 6 {
          self.out.push_str(", { with: {} }");
          None
        } else {
          ATTR_TYPES[*attr as usize % ATTR_TYPES.len()]
        };
        if let Some(a) = a {
          self.out.push_str(&format!(", {{ with: {{ type: \"{a}\" }} }}"));
        }
        self.out.push(')');
        self.out.push_str(&close);
        self.exp.push(Exp {
          kind: ExpKind::Dynamic(kind),
          text: spec_of(*spec).to_string(),
          range,
          attr_type: a.map(|s| s.to_string()),
          side_effect: false,
          types,
        });
      }
      Piece::DynamicTemplate { prefix, ctx } => {
        if dts {
          return;
        }
        let (open, close) = ctx_wrap(*ctx, n, in_ns);
        self.out.push_str(&open);
        self.out.push_str("import(");
        let s = self.out.len();
        let pre = ["./dir/", "./é/", "https://h.test/"][*prefix as usize % 3];
        self.out.push_str(&format!("`{pre}${{globalThis.name}}.ts`"));
        let range = (s, self.out.len());
        self.out.push(')');
        self.out.push_str(&close);
        self.exp.push(Exp {
          kind: ExpKind::Dynamic("template"),
          text: format!("{pre}|<expr>|.ts"),
          range,
          attr_type: None,
          side_effect: false,
          types: None,
        });
      }
      Piece::DynamicOpaque => {
        if dts {
          return;
        }
        self.out.push_str(&format!("const o{n} = import("));
        let start = self.out.len();
        self.out.push_str("globalThis.name");
        let end = self.out.len();
        self.out.push(')');
        self.end();
        // reported with an opaque argument: recorded as such
        self.exp.push(Exp {
          kind: ExpKind::Dynamic("opaque"),
          text: String::new(),
          range: (start, end),
          attr_type: None,
          side_effect: false,
          types: None,
        });
      }
      Piece::Require { spec, q, ctx } => {
        if dts {
          return;
        }
        let (open, close) = ctx_wrap(*ctx, n, in_ns);
        self.out.push_str(&open);
        self.out.push_str("require(");
        let range = self.lit(spec_of(*spec), *q);
        self.out.push(')');
        self.out.push_str(&close);
        self.exp.push(Exp {
          kind: ExpKind::Dynamic("require"),
          text: spec_of(*spec).to_string(),
          range,
          attr_type: None,
          side_effect: false,
          types: None,
        });
      }
      Piece::Namespace { inner } => {
        if !ts || in_ns {
          return;
        }
        if dts {
          self.out.push_str(&format!("declare namespace N{n} {{"));
        } else {
          self.out.push_str(&format!("namespace N{n} {{"));
        }
        self.out.push_str(self.eol);
        for p in inner {
          self.piece(p, true);
        }
        self.out.push('}');
        self.out.push_str(self.eol);
      }
      Piece::JsDoc { spec, style } => {
        let spec_text = spec_of(*spec);
        let start;
        match style % 4 {
          0 => {
            self.out.push_str("/** @type {import(");
            start = self.out.len();
            self.out.push_str(&format!("\"{spec_text}\""));
          }
          1 => {
            self.out.push_str("/**\n * é😀 text\n * @param {Foo & { x: import(");
            start = self.out.len();
            self.out.push_str(&format!("'{spec_text}'"));
          }
          2 => {
            self.out.push_str("/** @import { T } from ");
            start = self.out.len();
            self.out.push_str(&format!("\"{spec_text}\""));
          }
          _ => {
            self.out.push_str("/**\n * @import * as ns from ");
            start = self.out.len();
            self.out.push_str(&format!("'{spec_text}'"));
          }
        }
        let range = (start, self.out.len());
        match style % 4 {
          0 => self.out.push_str(").X} */"),
          1 => self.out.push_str(").B }} a */"),
          _ => self.out.push_str(" */"),
        }
        self.out.push_str(self.eol);
        if !in_ns {
          // a declaration for the comment to lead
          if dts {
            self.out.push_str(&format!("export declare const j{n}: number"));
          } else {
            self.out.push_str(&format!("const j{n} = 1"));
          }
          self.end();
        }
        if self.mt.is_js_family() {
          self.exp.push(Exp {
            kind: ExpKind::JsDoc,
            text: spec_text.to_string(),
            range,
            attr_type: None,
            side_effect: false,
            types: None,
          });
        }
      }
    }
  }
}

fn ctx_wrap(ctx: u8, n: usize, in_ns: bool) -> (String, String) {
  match ctx % 4 {
    0 => (format!("const v{n} = "), ";\n".to_string()),
    1 => (format!("async function h{n}() {{ return await "), "; }\n".to_string()),
    2 if !in_ns => (format!("class K{n} {{ m() {{ return "), "; } }\n".to_string()),
    _ => (format!("if (globalThis.flag) {{ void "), "; }\n".to_string()),
  }
}

pub fn build(p: &Program) -> Built {
  let mut b = B {
    out: String::new(),
    exp: Vec::new(),
    pragmas: Vec::new(),
    n: 0,
    eol: if p.eol == 1 { "\r\n" } else { "\n" },
    mt: p.mt,
  };
  if p.shebang {
    b.out.push_str("#!/usr/bin/env -S deno run\n");
  }
  let mut seen_kinds = std::collections::BTreeSet::new();
  for (kind, spec, style) in &p.head {
    let spec_text = spec_of(*spec).replace(' ', "_");
    match kind % 5 {
      0 | 1 => {
        let attr = if kind % 5 == 0 { "path" } else { "types" };
        b.out.push_str(&format!("/// <reference {attr}="));
        let s = b.out.len();
        let qc = if style % 2 == 0 { '"' } else { '\'' };
        b.out.push_str(&format!("{qc}{spec_text}{qc}"));
        let range = (s, b.out.len());
        b.out.push_str(" />");
        b.out.push_str(b.eol);
        // in an untyped module only the first types reference counts, and it
        // is the module's types dependency; the analyser still lists them all
        b.exp.push(Exp {
          kind: if kind % 5 == 0 { ExpKind::RefPath } else { ExpKind::RefTypes },
          text: spec_text,
          range,
          attr_type: None,
          side_effect: false,
          types: None,
        });
      }
      2 => {
        if !seen_kinds.insert(2) {
          continue;
        }
        let (open, close) = if style % 2 == 0 { ("// ", "") } else { ("/* ", " */") };
        b.out.push_str(&format!("{open}@ts-self-types="));
        let s = b.out.len();
        b.out.push_str(&format!("\"{spec_text}\""));
        let range = (s, b.out.len());
        b.out.push_str(close);
        b.out.push_str(b.eol);
        if !p.mt.is_ts() {
          b.exp.push(Exp {
            kind: ExpKind::SelfTypes,
            text: spec_text,
            range,
            attr_type: None,
            side_effect: false,
            types: None,
          });
        }
      }
      k => {
        if !seen_kinds.insert(k) {
          continue;
        }
        let name = if k == 3 { "@jsxImportSource" } else { "@jsxImportSourceTypes" };
        let lead = ["/** ", "/* ", "/**\n * "][*style as usize % 3];
        b.out.push_str(&format!("{lead}{name} "));
        let s = b.out.len();
        b.out.push_str(&spec_text);
        let range = (s, b.out.len());
        b.out.push_str(" */");
        b.out.push_str(b.eol);
        if p.mt.is_jsx() {
          b.exp.push(Exp {
            kind: if k == 3 { ExpKind::Jsx } else { ExpKind::JsxTypes },
            text: spec_text,
            range,
            attr_type: None,
            side_effect: false,
            types: None,
          });
        }
      }
    }
  }
  if p.comments_only {
    return Built {
      text: b.out,
      expected: b.exp,
      pragma_comments: b.pragmas,
    };
  }
  // a statement for the head comments to lead
  let cjs = matches!(p.mt, Mt::Cjs | Mt::Cts | Mt::Dcts);
  if p.mt.is_declaration() {
    b.out.push_str(if cjs { "declare const first: number;" } else { "export declare const first: number;" });
  } else {
    b.out.push_str(if cjs { "const first = 0;" } else { "export const first = 0;" });
  }
  b.out.push_str(b.eol);
  for piece in &p.pieces {
    b.piece(piece, false);
  }
  if let Some((spec, style)) = &p.source_map {
    let spec_text = spec_of(*spec).replace(' ', "_");
    match style % 3 {
      0 => b.out.push_str("//# sourceMappingURL="),
      1 => b.out.push_str("//@ sourceMappingURL="),
      _ => b.out.push_str("/*# sourceMappingURL="),
    }
    let s = b.out.len();
    b.out.push_str(&spec_text);
    let range = (s, b.out.len());
    if style % 3 == 2 {
      b.out.push_str(" */");
    }
    b.out.push_str(b.eol);
    b.exp.push(Exp {
      kind: ExpKind::SourceMap,
      text: spec_text,
      range,
      attr_type: None,
      side_effect: false,
      types: None,
    });
  }
  Built {
    text: b.out,
    expected: b.exp,
    pragma_comments: b.pragmas,
  }
}

fn quote() -> impl Strategy<Value = Quote> {
  prop_oneof![
    3 => Just(Quote::Double),
    2 => Just(Quote::Single),
    1 => Just(Quote::EscapedU),
    1 => Just(Quote::EscapedX),
  ]
}

fn leaf_piece() -> impl Strategy<Value = Piece> {
  let s = || 0..SPECS.len() as u8;
  let types = || proptest::option::weighted(0.2, (0..SPECS.len() as u8, 0..6u8));
  prop_oneof![
    4 => (0..TRIVIA.len() as u8).prop_map(Piece::Trivia),
    3 => (s(), quote(), 0..7u8, types(), 0..4u8).prop_map(|(spec, q, attr, types, form)| Piece::Import { spec, q, attr, types, form }),
    1 => (s(), quote()).prop_map(|(spec, q)| Piece::SideEffect { spec, q }),
    2 => (s(), quote(), 0..3u8).prop_map(|(spec, q, star)| Piece::ExportFrom { spec, q, star }),
    2 => (s(), quote(), any::<bool>()).prop_map(|(spec, q, export)| Piece::ImportType { spec, q, export }),
    2 => (s(), quote(), any::<bool>()).prop_map(|(spec, q, nested)| Piece::ImportTypeExpr { spec, q, nested }),
    1 => (s(), quote(), any::<bool>()).prop_map(|(spec, q, export)| Piece::ImportEquals { spec, q, export }),
    1 => (s(), proptest::option::weighted(0.4, s())).prop_map(|(spec, inner)| Piece::DeclareModule { spec, inner }),
    3 => (s(), quote(), proptest::bool::weighted(0.2), 0..7u8, types(), 0..4u8, 0..5u8).prop_map(|(spec, q, template, attr, types, ctx, phase)| Piece::Dynamic { spec, q, template, attr, types, ctx, phase }),
    1 => (0..3u8, 0..4u8).prop_map(|(prefix, ctx)| Piece::DynamicTemplate { prefix, ctx }),
    1 => Just(Piece::DynamicOpaque),
    1 => (s(), quote(), 0..4u8).prop_map(|(spec, q, ctx)| Piece::Require { spec, q, ctx }),
    2 => (s(), 0..4u8).prop_map(|(spec, style)| Piece::JsDoc { spec, style }),
    1 => (0..3u8).prop_map(Piece::Filler),
  ]
}

pub fn program_strategy(max_pieces: usize) -> impl Strategy<Value = Program> {
  let piece = prop_oneof![
    10 => leaf_piece(),
    1 => proptest::collection::vec(leaf_piece(), 0..4).prop_map(|inner| Piece::Namespace { inner }),
  ];
  (
    prop_oneof![
      3 => Just(Mt::Ts),
      1 => Just(Mt::Tsx),
      2 => Just(Mt::Js),
      1 => Just(Mt::Jsx),
      1 => Just(Mt::Dts),
      1 => Just(Mt::Mjs),
      1 => Just(Mt::Mts),
      1 => Just(Mt::Cjs),
      1 => Just(Mt::Cts),
      1 => Just(Mt::Dmts),
      1 => Just(Mt::Dcts),
    ],
    proptest::bool::weighted(0.15),
    proptest::collection::vec((0..5u8, 0..SPECS.len() as u8, 0..3u8), 0..4),
    proptest::collection::vec(piece, 0..=max_pieces),
    proptest::option::weighted(0.3, (0..SPECS.len() as u8, 0..3u8)),
    0..2u8,
    proptest::bool::weighted(0.06),
  )
    .prop_map(|(mt, shebang, head, pieces, source_map, eol, comments_only)| Program {
      mt,
      // half of the comment-only modules start with a shebang
      shebang: if comments_only { head.len() % 2 == 0 || shebang } else { shebang },
      head,
      pieces,
      source_map,
      eol,
      comments_only,
    })
}
