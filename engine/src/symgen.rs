//! Multi-module TypeScript program generator for the symbol analyser (C16):
//! every declaration kind, declaration merging, overloads, namespaces
//! (nested, dotted, merged), class static / instance members, expando
//! properties, import / export aliases, import-equals, star and namespace
//! re-exports with cycles. The generator records each module's own export
//! names and star edges; names come from small shared pools so that own
//! names, star re-exported names and aliases collide across modules.
//!
//! Programs are kept free of duplicate-identifier errors (declarations only
//! share a name where TypeScript merges them); names that resolve to nothing
//! are allowed (go-to-definition must answer them with an explicit marker).

use crate::runner::idx;
use proptest::prelude::*;
use serde::{Deserialize, Serialize};
use std::collections::{BTreeMap, BTreeSet};

#[derive(Clone, Debug, Serialize, Deserialize)]
pub struct RawMember {
  pub kind: u8,
  pub name: u8,
  pub is_static: bool,
  pub overloads: u8,
  pub r: u16,
}

#[derive(Clone, Debug, Serialize, Deserialize)]
pub struct RawDecl {
  pub kind: u8,
  pub name: u8,
  pub exported: bool,
  pub declare: bool,
  pub overloads: u8,
  pub dotted: bool,
  pub members: Vec<RawMember>,
  pub children: Vec<RawDecl>,
  pub refs: Vec<u16>,
  pub expando: u8,
}

#[derive(Clone, Debug, Serialize, Deserialize)]
pub struct RawImport {
  pub from: u16,
  pub form: u8,
  pub src: u16,
}

#[derive(Clone, Debug, Serialize, Deserialize)]
pub struct RawReExport {
  pub from: u16,
  pub form: u8,
  pub src: u16,
  pub name: u8,
}

#[derive(Clone, Debug, Serialize, Deserialize)]
pub struct RawLocalExport {
  pub target: u16,
  pub form: u8,
  pub name: u8,
}

#[derive(Clone, Debug, Serialize, Deserialize)]
pub struct RawMod {
  pub ext: u8,
  pub decls: Vec<RawDecl>,
  pub stars: Vec<u16>,
  pub reexports: Vec<RawReExport>,
  pub imports: Vec<RawImport>,
  pub local_exports: Vec<RawLocalExport>,
  pub default: u8,
  pub default_target: u16,
  /// (namespace pick, child pick, `export import`)
  pub import_equals: Vec<(u16, u16, bool)>,
}

#[derive(Clone, Debug, Serialize, Deserialize)]
pub struct RawProg {
  pub mods: Vec<RawMod>,
  /// module 0 imports and re-exports a JSON module
  pub json: bool,
}

fn member() -> impl Strategy<Value = RawMember> {
  (0..11u8, 0..4u8, proptest::bool::weighted(0.3), 0..3u8, any::<u16>()).prop_map(
    |(kind, name, is_static, overloads, r)| RawMember {
      kind,
      name,
      is_static,
      overloads,
      r,
    },
  )
}

fn leaf_decl() -> impl Strategy<Value = RawDecl> {
  (
    0..8u8,
    0..6u8,
    proptest::bool::weighted(0.5),
    proptest::bool::weighted(0.15),
    prop_oneof![3 => Just(0u8), 1 => Just(1u8), 1 => Just(2u8)],
    proptest::bool::weighted(0.2),
    proptest::collection::vec(member(), 0..=5),
    proptest::collection::vec(any::<u16>(), 0..=3),
    prop_oneof![3 => Just(0u8), 1 => Just(1u8), 1 => Just(2u8)],
  )
    .prop_map(
      |(kind, name, exported, declare, overloads, dotted, members, refs, expando)| RawDecl {
        kind,
        name,
        exported,
        declare,
        overloads,
        dotted,
        members,
        children: vec![],
        refs,
        expando,
      },
    )
}

fn decl() -> impl Strategy<Value = RawDecl> {
  // two levels of nesting for namespaces
  let lvl2 = (leaf_decl(), proptest::collection::vec(leaf_decl(), 0..=3)).prop_map(|(mut d, c)| {
    d.children = c;
    d
  });
  (leaf_decl(), proptest::collection::vec(lvl2, 0..=4)).prop_map(|(mut d, c)| {
    d.children = c;
    d
  })
}

fn module() -> impl Strategy<Value = RawMod> {
  (
    prop_oneof![5 => Just(0u8), 1 => Just(1u8), 2 => Just(2u8), 1 => Just(3u8)],
    proptest::collection::vec(decl(), 0..=6),
    proptest::collection::vec(any::<u16>(), 0..=3),
    proptest::collection::vec(
      (any::<u16>(), 0..6u8, any::<u16>(), 0..6u8).prop_map(|(from, form, src, name)| RawReExport {
        from,
        form,
        src,
        name,
      }),
      0..=3,
    ),
    proptest::collection::vec(
      (any::<u16>(), 0..6u8, any::<u16>()).prop_map(|(from, form, src)| RawImport { from, form, src }),
      0..=3,
    ),
    proptest::collection::vec(
      (any::<u16>(), 0..4u8, 0..6u8).prop_map(|(target, form, name)| RawLocalExport { target, form, name }),
      0..=3,
    ),
    prop_oneof![4 => Just(0u8), 1 => Just(1u8), 1 => Just(2u8), 1 => Just(3u8), 1 => Just(4u8), 1 => Just(5u8), 1 => Just(6u8), 1 => Just(7u8)],
    any::<u16>(),
    proptest::collection::vec((any::<u16>(), any::<u16>(), proptest::bool::weighted(0.4)), 0..=2),
  )
    .prop_map(
      |(ext, decls, stars, reexports, imports, local_exports, default, default_target, import_equals)| RawMod {
        ext,
        decls,
        stars,
        reexports,
        imports,
        local_exports,
        default,
        default_target,
        import_equals,
      },
    )
}

pub fn program_strategy(max_mods: usize) -> impl Strategy<Value = RawProg> {
  (proptest::collection::vec(module(), 1..=max_mods), proptest::bool::weighted(0.15))
    .prop_map(|(mods, json)| RawProg { mods, json })
}

#[derive(Clone, Debug, Default)]
pub struct Rec {
  /// per module: own export names
  pub own: Vec<BTreeSet<String>>,
  /// per module: star re-export targets (module indices, in source order)
  pub stars: Vec<Vec<usize>>,
  pub merges: usize,
  pub overloads: usize,
  pub expandos: usize,
  pub namespaces: usize,
  pub static_members: usize,
  pub instance_members: usize,
  pub aliases: usize,
  pub import_equals: usize,
  pub namespace_reexports: usize,
}

pub struct Program {
  /// (path like `/m0.ts`, text)
  pub files: Vec<(String, String)>,
  pub rec: Rec,
}

pub fn ext_of(e: u8) -> &'static str {
  match e {
    1 => "tsx",
    2 => "d.ts",
    3 => "mts",
    _ => "ts",
  }
}

pub fn path_of(prog: &RawProg, i: usize) -> String {
  format!("/m{i}.{}", ext_of(prog.mods[i].ext))
}

#[derive(Clone, Copy, PartialEq, Eq, Debug)]
enum K {
  Class,
  Interface,
  Type,
  Enum,
  Function,
  Var,
  Namespace,
}

fn kind_of(k: u8) -> K {
  match k % 8 {
    0 => K::Class,
    1 => K::Interface,
    2 => K::Type,
    3 => K::Enum,
    4 => K::Function,
    5 => K::Var,
    _ => K::Namespace,
  }
}

/// whether TypeScript merges a new declaration of kind `new` with the
/// declarations already made under the same name in the same scope
fn can_merge(existing: &[K], new: K) -> bool {
  use K::*;
  let all = |allowed: &[K]| existing.iter().all(|e| allowed.contains(e));
  match new {
    Interface => all(&[Interface, Class, Var, Function, Namespace]) && existing.iter().filter(|e| **e == Class).count() <= 1,
    Namespace => all(&[Namespace, Class, Function, Enum, Interface]),
    Enum => all(&[Enum]),
    Class => all(&[Interface]),
    Var => all(&[Interface, Type]) && !existing.contains(&Var),
    Function => all(&[Interface, Type]),
    Type => all(&[Var, Function]) && !existing.contains(&Type),
  }
}

struct Scope {
  /// name -> kinds declared (in order) and whether the group is exported
  names: BTreeMap<String, (Vec<K>, bool)>,
  fresh: usize,
}

impl Scope {
  fn new() -> Self {
    Scope {
      names: BTreeMap::new(),
      fresh: 0,
    }
  }
  /// Returns the name to use and the exported flag to use.
  fn declare(&mut self, want: String, kind: K, exported: bool, rec: &mut Rec) -> (String, bool) {
    if let Some((kinds, exp)) = self.names.get_mut(&want) {
      if can_merge(kinds, kind) {
        kinds.push(kind);
        rec.merges += 1;
        return (want, *exp);
      }
      self.fresh += 1;
      let n = format!("{want}u{}", self.fresh);
      self.names.insert(n.clone(), (vec![kind], exported));
      return (n, exported);
    }
    self.names.insert(want.clone(), (vec![kind], exported));
    (want, exported)
  }
}

struct Ctx<'a> {
  prog: &'a RawProg,
  me: usize,
  ambient: bool,
  enum_blocks: usize,
  rec: &'a mut Rec,
}

impl Ctx<'_> {
  /// a type expression naming things that may or may not exist
  fn ty(&self, r: u16) -> String {
    let a = (r >> 3) as usize;
    let d = a % 6;
    let c = (a / 6) % 4;
    let j = (a / 24) % self.prog.mods.len();
    match r % 8 {
      0 => "number".into(),
      1 => format!("D{d}"),
      2 => format!("D{d}.C{c}"),
      3 => format!("typeof D{d}"),
      4 => format!("I{}", c % 3),
      5 => format!("I{}.D{d}", c % 3),
      6 => format!("import(\".{}\").D{d}", path_of(self.prog, j)),
      _ => format!("Q{}", c % 2),
    }
  }

  fn body(&self, ret: &str) -> String {
    if self.ambient {
      ";".into()
    } else if ret == "void" {
      " {}".into()
    } else {
      " { return null as any; }".into()
    }
  }

  fn init(&self, v: &str) -> String {
    if self.ambient {
      String::new()
    } else {
      format!(" = {v}")
    }
  }

  fn class_members(&mut self, members: &[RawMember], out: &mut String, ind: &str) {
    let mut used: BTreeSet<(bool, String)> = BTreeSet::new();
    let mut has_ctor = false;
    let mut has_index = [false, false];
    let mut fresh = 0;
    for m in members {
      let st = if m.is_static { "static " } else { "" };
      let mut name = format!("M{}", m.name);
      let kind = m.kind % 11;
      if matches!(kind, 0 | 1 | 2 | 3 | 7 | 10) {
        if !used.insert((m.is_static, name.clone())) {
          fresh += 1;
          name = format!("{name}x{fresh}");
          used.insert((m.is_static, name.clone()));
        }
        if m.is_static {
          self.rec.static_members += 1;
        } else {
          self.rec.instance_members += 1;
        }
      }
      let t = self.ty(m.r);
      match kind {
        0 => out.push_str(&format!("{ind}{st}{name}: {t}{};\n", self.init("null as any"))),
        1 => {
          for k in 0..m.overloads {
            out.push_str(&format!("{ind}{st}{name}(a{k}: {}): void;\n", if k == 0 { "string" } else { "number" }));
            self.rec.overloads += 1;
          }
          out.push_str(&format!("{ind}{st}{name}(a: {t}): void{}\n", self.body("void")));
        }
        2 => out.push_str(&format!("{ind}{st}get {name}(): {t}{}\n", self.body("x"))),
        3 => {
          out.push_str(&format!("{ind}{st}get {name}(): {t}{}\n", self.body("x")));
          out.push_str(&format!("{ind}{st}set {name}(v: {t}){}\n", self.body("void")));
        }
        4 => {
          if has_ctor {
            continue;
          }
          has_ctor = true;
          for k in 0..m.overloads {
            out.push_str(&format!("{ind}constructor(o{k}: string);\n"));
            self.rec.overloads += 1;
          }
          if self.ambient {
            out.push_str(&format!("{ind}constructor(p0: {t});\n"));
          } else if m.overloads > 0 {
            out.push_str(&format!("{ind}constructor(o: any) {{}}\n"));
          } else {
            out.push_str(&format!(
              "{ind}constructor(public P0: {t}, private P1: string, readonly P2 = 1, plain?: number) {{}}\n"
            ));
            self.rec.instance_members += 3;
          }
        }
        5 => {
          let i = m.is_static as usize;
          if has_index[i] {
            continue;
          }
          has_index[i] = true;
          out.push_str(&format!("{ind}{st}[key: string]: any;\n"));
        }
        6 => {
          if !self.ambient {
            out.push_str(&format!("{ind}static {{ }}\n"));
          }
        }
        7 => {
          if self.ambient {
            out.push_str(&format!("{ind}{st}accessor {name}: {t};\n"));
          } else {
            out.push_str(&format!("{ind}{st}accessor {name}: {t} = null as any;\n"));
          }
        }
        8 => {
          let n = format!("#h{}", m.name);
          if used.insert((m.is_static, n.clone())) {
            if self.ambient {
              out.push_str(&format!("{ind}{st}{n}: number;\n"));
            } else if m.overloads == 0 {
              out.push_str(&format!("{ind}{st}{n} = 1;\n"));
            } else {
              out.push_str(&format!("{ind}{st}{n}(): void {{}}\n"));
            }
          }
        }
        9 => {
          let (n, text) = match m.name % 3 {
            0 => ("[Symbol.iterator]".to_string(), "[Symbol.iterator]".to_string()),
            1 => (format!("s{}", m.overloads), format!("[\"s{}\"]", m.overloads)),
            _ => (format!("{}", m.overloads), format!("[{}]", m.overloads)),
          };
          if used.insert((m.is_static, n)) {
            out.push_str(&format!("{ind}{st}{text}(): void{}\n", self.body("void")));
          }
        }
        _ => {
          let acc = if m.overloads == 0 { "private" } else { "protected" };
          out.push_str(&format!("{ind}{acc} {st}{name}: {t}{};\n", self.init("null as any")));
        }
      }
    }
  }

  fn interface_members(&mut self, members: &[RawMember], out: &mut String, ind: &str) {
    let mut used: BTreeSet<String> = BTreeSet::new();
    let mut has_index = false;
    let mut fresh = 0;
    for m in members {
      let mut name = format!("M{}", m.name);
      let t = self.ty(m.r);
      let kind = m.kind % 8;
      if matches!(kind, 0 | 2 | 3) && !used.insert(format!("{kind}:{name}")) {
        fresh += 1;
        name = format!("{name}x{fresh}");
      }
      if matches!(kind, 0 | 1 | 2 | 3) {
        self.rec.instance_members += 1;
      }
      match kind {
        0 => out.push_str(&format!("{ind}{name}{}: {t};\n", if m.is_static { "?" } else { "" })),
        1 => {
          for k in 0..=m.overloads {
            out.push_str(&format!("{ind}{name}o(a{k}: {}): void;\n", if k == 0 { t.as_str() } else { "number" }));
          }
          if m.overloads > 0 {
            self.rec.overloads += 1;
          }
        }
        2 => out.push_str(&format!("{ind}get {name}g(): {t};\n")),
        3 => out.push_str(&format!("{ind}set {name}g(v: {t});\n")),
        4 => out.push_str(&format!("{ind}(a: {t}): string;\n")),
        5 => out.push_str(&format!("{ind}new (a: {t}): object;\n")),
        6 => {
          if !has_index {
            has_index = true;
            out.push_str(&format!("{ind}[key: string]: any;\n"));
          }
        }
        _ => {
          let text = match m.name % 3 {
            0 => "[Symbol.iterator]".to_string(),
            1 => format!("\"s{}\"", m.overloads),
            _ => format!("{}", 10 + m.overloads),
          };
          if used.insert(text.clone()) {
            out.push_str(&format!("{ind}{text}(): void;\n"));
          }
        }
      }
    }
  }

  /// Renders the declarations of one scope. `prefix` is the name prefix of
  /// the scope's pool (`D` at module level, `C` in namespaces); returns the
  /// scope so the caller can read the declared names.
  #[allow(clippy::too_many_arguments)]
  fn decls(
    &mut self,
    decls: &[RawDecl],
    prefix: &str,
    suffix: &str,
    depth: usize,
    in_namespace: bool,
    parent_ambient: bool,
    out: &mut String,
    scope: &mut Scope,
  ) {
    let ind = "  ".repeat(depth);
    for d in decls {
      let kind = kind_of(d.kind);
      // merging across blocks of a merged namespace is only valid for
      // exported interfaces / namespaces; other names get the block suffix
      let want = if !suffix.is_empty() && !(d.exported && matches!(kind, K::Interface | K::Namespace)) {
        format!("{prefix}{}{suffix}", d.name)
      } else {
        format!("{prefix}{}", d.name)
      };
      let exported_wish = d.exported;
      let (name, exported) = scope.declare(want, kind, exported_wish, self.rec);
      let ambient_here = self.ambient || parent_ambient || d.declare;
      let saved = self.ambient;
      self.ambient = ambient_here;
      let exp = if exported { "export " } else { "" };
      let dec = if !parent_ambient && (d.declare || (saved && !in_namespace)) {
        "declare "
      } else {
        ""
      };
      let t0 = self.ty(d.refs.first().copied().unwrap_or(0));
      let t1 = self.ty(d.refs.get(1).copied().unwrap_or(0));
      match kind {
        K::Class => {
          let heritage = match d.refs.get(2).map(|r| r % 4) {
            Some(1) => format!(" implements D{}", d.refs[2] as usize % 6),
            Some(2) => format!(" extends D{}", (d.refs[2] as usize >> 2) % 6),
            _ => String::new(),
          };
          out.push_str(&format!("{ind}{exp}{dec}class {name}{heritage} {{\n"));
          let members = d.members.clone();
          self.class_members(&members, out, &format!("{ind}  "));
          out.push_str(&format!("{ind}}}\n"));
        }
        K::Interface => {
          let heritage = match d.refs.get(2).map(|r| r % 3) {
            Some(1) => format!(" extends D{}", (d.refs[2] as usize >> 2) % 6),
            _ => String::new(),
          };
          out.push_str(&format!("{ind}{exp}{dec}interface {name}{heritage} {{\n"));
          let members = d.members.clone();
          self.interface_members(&members, out, &format!("{ind}  "));
          out.push_str(&format!("{ind}}}\n"));
        }
        K::Type => {
          out.push_str(&format!("{ind}{exp}{dec}type {name} = {t0} | {{ a: {t1} }};\n"));
        }
        K::Enum => {
          self.enum_blocks += 1;
          out.push_str(&format!("{ind}{exp}{dec}enum {name} {{ A{0} = {0}, B{0} = {1} }}\n", self.enum_blocks, self.enum_blocks + 100));
        }
        K::Function => {
          for k in 0..d.overloads {
            out.push_str(&format!("{ind}{exp}{dec}function {name}(a{k}: {}): {t0};\n", if k == 0 { "string" } else { "number" }));
            self.rec.overloads += 1;
          }
          out.push_str(&format!("{ind}{exp}{dec}function {name}(a: {t1}): {t0}{}\n", self.body("x")));
          if d.expando > 0 && !ambient_here && !in_namespace {
            for e in 0..d.expando {
              out.push_str(&format!("{name}.E{e} = {};\n", if e == 0 { "1" } else { "(a: number): string => \"\"" }));
              self.rec.expandos += 1;
            }
            if d.expando == 2 {
              // a second assignment to the same property
              out.push_str(&format!("{name}.E0 = 2;\n"));
            }
          }
        }
        K::Var => {
          let kw = if d.overloads == 1 { "let" } else { "const" };
          if d.dotted && !ambient_here {
            // destructuring: several bindings from one declarator
            let (n2, _) = scope.declare(format!("{name}b"), K::Var, exported, self.rec);
            let (n3, _) = scope.declare(format!("{name}c"), K::Var, exported, self.rec);
            out.push_str(&format!(
              "{ind}{exp}{kw} {{ a: {name}, b: [{n2}, ...{n3}] }} = null as any;\n"
            ));
          } else {
            out.push_str(&format!("{ind}{exp}{dec}{kw} {name}: {t0}{};\n", self.init("null as any")));
          }
        }
        K::Namespace => {
          self.rec.namespaces += 1;
          let block = scope.names.get(&name).map(|(k, _)| k.iter().filter(|x| **x == K::Namespace).count()).unwrap_or(1);
          let sfx = if block > 1 { format!("b{block}") } else { String::new() };
          let kw = if d.overloads == 2 { "module" } else { "namespace" };
          if d.dotted && depth == 0 {
            out.push_str(&format!("{ind}{exp}{dec}{kw} {name}.Inner {{\n"));
          } else {
            out.push_str(&format!("{ind}{exp}{dec}{kw} {name} {{\n"));
          }
          if depth < 2 {
            let mut inner = Scope::new();
            let children = d.children.clone();
            self.decls(
              &children,
              "C",
              &sfx,
              depth + 1,
              true,
              ambient_here,
              out,
              &mut inner,
            );
          }
          out.push_str(&format!("{ind}}}\n"));
        }
      }
      self.ambient = saved;
    }
  }
}

/// Builds the program text and the record.
pub fn build(prog: &RawProg) -> Program {
  let n = prog.mods.len();
  let mut rec = Rec {
    own: vec![BTreeSet::new(); n],
    stars: vec![Vec::new(); n],
    ..Default::default()
  };
  // phase 1: local declarations, own export names, star edges
  let mut bodies: Vec<String> = Vec::new();
  let mut tops: Vec<Vec<(String, bool, Vec<K>)>> = Vec::new();
  for (i, m) in prog.mods.iter().enumerate() {
    let ambient = m.ext == 2;
    let mut out = String::new();
    let mut scope = Scope::new();
    {
      let mut ctx = Ctx {
        prog,
        me: i,
        ambient,
        enum_blocks: 0,
        rec: &mut rec,
      };
      let _ = ctx.me;
      ctx.decls(&m.decls, "D", "", 0, false, false, &mut out, &mut scope);
    }
    let mut top = Vec::new();
    for (name, (kinds, exported)) in &scope.names {
      top.push((name.clone(), *exported, kinds.clone()));
      if *exported {
        rec.own[i].insert(name.clone());
      }
    }
    tops.push(top);
    bodies.push(out);
    for s in &m.stars {
      rec.stars[i].push(idx(*s, n));
    }
  }
  // phase 2: names added by aliases (independent of what they point at)
  struct Pending {
    text_pre: String,
    text_post: String,
  }
  let mut pend: Vec<Pending> = Vec::new();
  // planned statements whose source name is filled in phase 3
  enum Plan {
    Import { from: usize, form: u8, local: String, src: u16 },
    ReExport { from: usize, form: u8, name: String, src: u16 },
  }
  let mut plans: Vec<Vec<Plan>> = Vec::new();
  for (i, m) in prog.mods.iter().enumerate() {
    let ambient = m.ext == 2;
    let mut post = String::new();
    let mut plan = Vec::new();
    let mut locals: Vec<String> = tops[i].iter().map(|t| t.0.clone()).collect();
    // imports
    let mut ns_imports: Vec<String> = Vec::new();
    for (k, im) in m.imports.iter().enumerate() {
      let from = idx(im.from, n);
      let local = format!("I{k}");
      if im.form % 6 == 2 {
        ns_imports.push(local.clone());
      }
      plan.push(Plan::Import {
        from,
        form: im.form % 6,
        local: local.clone(),
        src: im.src,
      });
      locals.push(local);
    }
    let mut fresh = 0usize;
    let mut alias = |own: &BTreeSet<String>, want: u8, fresh: &mut usize| -> String {
      let w = format!("D{want}");
      if !own.contains(&w) {
        return w;
      }
      loop {
        *fresh += 1;
        let r = format!("R{fresh}");
        if !own.contains(&r) {
          return r;
        }
      }
    };
    // import equals
    let namespaces: Vec<String> = tops[i]
      .iter()
      .filter(|t| t.2.contains(&K::Namespace))
      .map(|t| t.0.clone())
      .chain(ns_imports.iter().cloned())
      .collect();
    for (k, (nsp, child, is_export)) in m.import_equals.iter().enumerate() {
      let ns = if namespaces.is_empty() {
        format!("D{}", nsp % 6)
      } else {
        namespaces[idx(*nsp, namespaces.len())].clone()
      };
      let part = if ns.starts_with('I') {
        format!("D{}", child % 6)
      } else if child % 5 == 0 {
        format!("C{}.C{}", child % 4, (child >> 3) % 4)
      } else {
        format!("C{}", child % 4)
      };
      let q = format!("Q{k}");
      if *is_export && !ambient {
        post.push_str(&format!("export import {q} = {ns}.{part};\n"));
        rec.own[i].insert(q.clone());
      } else {
        post.push_str(&format!("import {q} = {ns}.{part};\n"));
      }
      rec.import_equals += 1;
      locals.push(q);
    }
    // local exports of things not exported inline
    let exportable: Vec<String> = tops[i]
      .iter()
      .filter(|t| !t.1)
      .map(|t| t.0.clone())
      .chain(locals.iter().filter(|l| l.starts_with('I') || l.starts_with('Q')).cloned())
      .collect();
    let mut exported_locals: BTreeSet<String> = BTreeSet::new();
    for le in &m.local_exports {
      if exportable.is_empty() {
        break;
      }
      let target = exportable[idx(le.target, exportable.len())].clone();
      match le.form % 4 {
        0 => {
          if !rec.own[i].contains(&target) && exported_locals.insert(target.clone()) {
            post.push_str(&format!("export {{ {target} }};\n"));
            rec.own[i].insert(target);
          }
        }
        1 => {
          let a = alias(&rec.own[i], le.name, &mut fresh);
          post.push_str(&format!("export {{ {target} as {a} }};\n"));
          rec.own[i].insert(a);
          rec.aliases += 1;
        }
        2 => {
          if !rec.own[i].contains("default") && m.default == 0 {
            post.push_str(&format!("export {{ {target} as default }};\n"));
            rec.own[i].insert("default".into());
            rec.aliases += 1;
          }
        }
        _ => {
          let a = alias(&rec.own[i], le.name, &mut fresh);
          post.push_str(&format!("export type {{ {target} as {a} }};\n"));
          rec.own[i].insert(a);
          rec.aliases += 1;
        }
      }
    }
    // re-exports by name (source name filled in later)
    for re in &m.reexports {
      let from = idx(re.from, n);
      let form = re.form % 6;
      let name = match form {
        5 => {
          if rec.own[i].contains("default") || m.default != 0 {
            continue;
          }
          "default".to_string()
        }
        _ => alias(&rec.own[i], re.name, &mut fresh),
      };
      rec.own[i].insert(name.clone());
      if form == 3 {
        rec.namespace_reexports += 1;
      } else {
        rec.aliases += 1;
      }
      plan.push(Plan::ReExport {
        from,
        form,
        name,
        src: re.src,
      });
    }
    // default export
    let has_default = rec.own[i].contains("default");
    let mut pre = String::new();
    if !has_default {
      let target = if locals.is_empty() {
        None
      } else {
        Some(locals[idx(m.default_target, locals.len())].clone())
      };
      let text = match (m.default, ambient) {
        (0, _) => None,
        (1, false) => Some("export default class DD {\n  static S0: number = 1;\n  M0(): void {}\n}\n".to_string()),
        (1, true) => Some("export default class DD {\n  static S0: number;\n  M0(): void;\n}\n".to_string()),
        (2, false) => Some("export default function () {}\n".to_string()),
        (2, true) => Some("export default function (): void;\n".to_string()),
        (3, false) => Some(if m.default_target % 2 == 0 { "export default 42;\n".to_string() } else { "export default { a: 1, b: [2] };\n".to_string() }),
        (5, _) => Some("export default interface DI {\n  M0: number;\n  M1(): void;\n}\n".to_string()),
        (6, _) if rec.own[i].is_empty() && rec.stars[i].is_empty() => target.as_ref().map(|t| format!("export = {t};\n")),
        (7, false) => Some("export default function DF(a: string): void;\nexport default function DF(a: number): void;\nexport default function DF(a: any): void {}\n".to_string()),
        (7, true) => Some("export default function DF(a: string): void;\nexport default function DF(a: number): void;\n".to_string()),
        _ => target.as_ref().map(|t| format!("export default {t};\n")),
      };
      if let Some(t) = text {
        if m.default == 7 {
          rec.overloads += 1;
        }
        if !t.starts_with("export =") {
          rec.own[i].insert("default".into());
        }
        post.push_str(&t);
      }
    }
    let _ = &mut pre;
    pend.push(Pending {
      text_pre: pre,
      text_post: post,
    });
    plans.push(plan);
  }
  // phase 3: resolved name sets (reference fixpoint) to pick source names from
  let resolved = resolved_names(&rec.own, &rec.stars);
  let mut files = Vec::new();
  for (i, m) in prog.mods.iter().enumerate() {
    let mut text = String::new();
    let pick = |from: usize, src: u16| -> String {
      let names: Vec<&String> = resolved[from].iter().collect();
      if names.is_empty() || src % 11 == 0 {
        format!("Nope{}", src % 3)
      } else {
        names[idx(src, names.len())].clone()
      }
    };
    for p in &plans[i] {
      match p {
        Plan::Import { from, form, local, src } => {
          let spec = format!(".{}", path_of(prog, *from));
          let s = pick(*from, *src);
          match form {
            0 | 5 => text.push_str(&format!("import {{ {s} as {local} }} from \"{spec}\";\n")),
            1 => text.push_str(&format!("import {local} from \"{spec}\";\n")),
            2 => text.push_str(&format!("import * as {local} from \"{spec}\";\n")),
            3 => text.push_str(&format!("import type {{ {s} as {local} }} from \"{spec}\";\n")),
            _ => text.push_str(&format!("import {local} = require(\"{spec}\");\n")),
          }
        }
        Plan::ReExport { .. } => {}
      }
    }
    text.push_str(&pend[i].text_pre);
    text.push_str(&bodies[i]);
    text.push_str(&pend[i].text_post);
    for p in &plans[i] {
      if let Plan::ReExport { from, form, name, src } = p {
        let spec = format!(".{}", path_of(prog, *from));
        let s = pick(*from, *src);
        match form {
          0 | 1 => {
            if s == *name {
              text.push_str(&format!("export {{ {s} }} from \"{spec}\";\n"));
            } else {
              text.push_str(&format!("export {{ {s} as {name} }} from \"{spec}\";\n"));
            }
          }
          2 => text.push_str(&format!("export {{ default as {name} }} from \"{spec}\";\n")),
          3 => text.push_str(&format!("export * as {name} from \"{spec}\";\n")),
          4 => text.push_str(&format!("export type {{ {s} as {name} }} from \"{spec}\";\n")),
          _ => text.push_str(&format!("export {{ {s} as default }} from \"{spec}\";\n")),
        }
      }
    }
    for s in &m.stars {
      let j = idx(*s, n);
      text.push_str(&format!("export * from \".{}\";\n", path_of(prog, j)));
    }
    if i == 0 && prog.json && !rec.own[0].contains("J") {
      text.push_str("import j0 from \"./data.json\" with { type: \"json\" };\nexport { j0 as J };\nexport type JT = typeof j0;\n");
      rec.own[0].insert("J".into());
      rec.own[0].insert("JT".into());
    }
    if text.trim().is_empty() {
      text.push_str("export {};\n");
    }
    files.push((path_of(prog, i), text));
  }
  if prog.json {
    files.push(("/data.json".into(), "  { \"a\": [1, 2, { \"b\": null }] }\n".into()));
  }
  Program { files, rec }
}

/// Reference: least fixpoint of
/// `R(m) = own(m) ∪ ⋃_{s ∈ stars(m)} (R(s) \ {default})`.
pub fn resolved_names(own: &[BTreeSet<String>], stars: &[Vec<usize>]) -> Vec<BTreeSet<String>> {
  let mut r: Vec<BTreeSet<String>> = own.to_vec();
  loop {
    let mut changed = false;
    for m in 0..own.len() {
      for &s in &stars[m] {
        let add: Vec<String> = r[s].iter().filter(|n| *n != "default" && !r[m].contains(*n)).cloned().collect();
        if !add.is_empty() {
          changed = true;
          r[m].extend(add);
        }
      }
    }
    if !changed {
      return r;
    }
  }
}

/// whether some module reaches itself over star edges
pub fn has_star_cycle(stars: &[Vec<usize>]) -> bool {
  for start in 0..stars.len() {
    let mut seen = BTreeSet::new();
    let mut stack: Vec<usize> = stars[start].clone();
    while let Some(x) = stack.pop() {
      if x == start {
        return true;
      }
      if seen.insert(x) {
        stack.extend(stars[x].iter().copied());
      }
    }
  }
  false
}
