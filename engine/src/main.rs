mod fc;
mod harness;
mod obs;
mod props;
mod refmodel;
mod registry;
mod refwalk;
mod runner;
mod srcgen;
mod symgen;
mod tsgen;
mod world;

fn main() {
  let args: Vec<String> = std::env::args().skip(1).collect();
  if args.len() < 2 {
    eprintln!("usage: vp <check|worker|replay|sample> <ID> ...");
    std::process::exit(2);
  }
  if args[0] == "tsdump" {
    // developer aid: print generated packages and their fast-check output
    use proptest::strategy::{Strategy, ValueTree};
    let n: usize = args[1].parse().unwrap_or(1);
    let mut runner = proptest::test_runner::TestRunner::deterministic();
    for _ in 0..n {
      let raw = tsgen::raw_package(8).new_tree(&mut runner).unwrap().current();
      let pkg = tsgen::build(&raw);
      for (p, t) in &pkg.files {
        println!("--- {p}\n{t}");
      }
      println!("retained: {:?}\nexpects_diagnostic: {}", pkg.rec.retained, pkg.rec.expects_diagnostic);
      let mut g = fc::build_jsr_graph(&[&pkg]);
      for e in g.module_errors() {
        println!("GRAPH ERROR: {e}");
      }
      fc::run_fast_check(&mut g, None, None);
      println!("{}", fc::dump(&g));
    }
    return;
  }
  if args[0] == "tsrec" {
    let text = std::fs::read_to_string(&args[1]).unwrap();
    let case: props::c09::Case = serde_json::from_str(&text).unwrap();
    for raw in &case.pkgs {
      let pkg = tsgen::build(raw);
      for (p, t) in &pkg.files {
        println!("--- {p}\n{t}");
      }
      println!("{:#?}", pkg.rec);
      for d in &pkg.decls {
        println!("{d:?}");
      }
    }
    return;
  }
  if args[0] == "symrec" {
    let text = std::fs::read_to_string(&args[1]).unwrap();
    let case: props::c16::Case = serde_json::from_str(&text).unwrap();
    let prog = symgen::build(&case.prog);
    for (p, t) in &prog.files {
      println!("--- {p}\n{t}");
    }
    println!("{:#?}", prog.rec);
    return;
  }
  if args[0] == "c16files" {
    // every file of the directory is served under file:/// and is a root
    let mut files = Vec::new();
    for e in std::fs::read_dir(&args[1]).unwrap() {
      let p = e.unwrap().path();
      let name = p.file_name().unwrap().to_string_lossy().to_string();
      files.push((format!("/{name}"), std::fs::read_to_string(&p).unwrap()));
    }
    files.sort();
    let graph = props::c16::graph_of(&files);
    let mut o = runner::Outcome::default();
    let r = props::c16::check_graph(&graph, &mut o);
    println!("{r:?}");
    for v in &o.violations {
      println!("{}: {}", v.sig, v.msg);
    }
    return;
  }
  if args[0] == "tsemit" {
    let text = std::fs::read_to_string(&args[1]).unwrap();
    let case: props::c09::Case = serde_json::from_str(&text).unwrap();
    let p = props::c09::prepare(&case, None);
    println!("{}", fc::dump(&p.graph));
    return;
  }
  if args[0] == "fuzzseed" {
    // seed corpus of the fuzz target fz_analyze: every module source of the
    // spec corpus, prefixed with the byte that selects its media type
    let dir = std::path::Path::new(&args[1]);
    std::fs::create_dir_all(dir).unwrap();
    let mut n = 0;
    for (_, name, src) in props::c08::corpus_sources() {
      let ext_byte: u8 = if name.ends_with(".d.ts") {
        4
      } else if name.ends_with(".d.mts") {
        7
      } else if name.ends_with(".tsx") {
        1
      } else if name.ends_with(".jsx") {
        3
      } else if name.ends_with(".mjs") {
        5
      } else if name.ends_with(".mts") {
        6
      } else if name.ends_with(".js") {
        2
      } else if name.ends_with(".ts") {
        0
      } else {
        continue;
      };
      if src.len() > 12_000 || src.starts_with("HEADERS:") {
        continue;
      }
      let mut bytes = vec![ext_byte];
      bytes.extend_from_slice(src.as_bytes());
      std::fs::write(dir.join(format!("seed{n:04}")), bytes).unwrap();
      n += 1;
    }
    println!("{n} seed inputs written to {}", dir.display());
    return;
  }
  if args[0] == "c12rec" {
    let text = std::fs::read_to_string(&args[1]).unwrap();
    let case: props::c12::Case = serde_json::from_str(&text).unwrap();
    props::c12::trace(&case);
    return;
  }
  let id = args[1].clone();
  let code = match id.as_str() {
    "C01" => runner::dispatch(props::c01::spec(), &args),
    "C02" => runner::dispatch(props::c02::spec(), &args),
    "C03" => runner::dispatch(props::c03::spec(), &args),
    "C04" => runner::dispatch(props::c04::spec(), &args),
    "C05" => runner::dispatch(props::c05::spec(), &args),
    "C06" => runner::dispatch(props::c06::spec(), &args),
    "C07" => runner::dispatch(props::c07::spec(), &args),
    "C08" => runner::dispatch(props::c08::spec(), &args),
    "C09" => runner::dispatch(props::c09::spec(), &args),
    "C10" => runner::dispatch(props::c10::spec(), &args),
    "C11" => runner::dispatch(props::c11::spec(), &args),
    "C12" => runner::dispatch(props::c12::spec(), &args),
    "C13" => runner::dispatch(props::c13::spec(), &args),
    "C14" => runner::dispatch(props::c14::spec(), &args),
    "C15" => runner::dispatch(props::c15::spec(), &args),
    "C19" => runner::dispatch(props::c19::spec(), &args),
    "C18" => runner::dispatch(props::c18::spec(), &args),
    "C16" => runner::dispatch(props::c16::spec(), &args),
    "C17" => runner::dispatch(props::c17::spec(), &args),
    "C20" => runner::dispatch(props::c20::spec(), &args),
    other => {
      eprintln!("unknown property {other}");
      2
    }
  };
  std::process::exit(code);
}
