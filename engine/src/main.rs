mod harness;
mod obs;
mod props;
mod refmodel;
mod registry;
mod refwalk;
mod runner;
mod srcgen;
mod world;

fn main() {
  let args: Vec<String> = std::env::args().skip(1).collect();
  if args.len() < 2 {
    eprintln!("usage: vp <check|worker|replay|sample> <ID> ...");
    std::process::exit(2);
  }
  let id = args[1].clone();
  let code = match id.as_str() {
    "C01" => runner::dispatch(props::c01::spec(), &args),
    "C02" => runner::dispatch(props::c02::spec(), &args),
    "C03" => runner::dispatch(props::c03::spec(), &args),
    "C04" => runner::dispatch(props::c04::spec(), &args),
    "C05" => runner::dispatch(props::c05::spec(), &args),
    "C06" => runner::dispatch(props::c06::spec(), &args),
    "C07" => runner::dispatch(props::c07::spec(), &args),
    "C08" => runner::dispatch(props::c08::spec(), &args),
    "C13" => runner::dispatch(props::c13::spec(), &args),
    "C14" => runner::dispatch(props::c14::spec(), &args),
    "C15" => runner::dispatch(props::c15::spec(), &args),
    "C19" => runner::dispatch(props::c19::spec(), &args),
    "C18" => runner::dispatch(props::c18::spec(), &args),
    "C17" => runner::dispatch(props::c17::spec(), &args),
    "C20" => runner::dispatch(props::c20::spec(), &args),
    other => {
      eprintln!("unknown property {other}");
      2
    }
  };
  std::process::exit(code);
}
