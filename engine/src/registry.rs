//! JSR registry model: packages, versions (yanked, creation date), version
//! manifests (exports, file checksums, optional embedded module info) and the
//! files themselves, materialised into what the loader serves.

use crate::harness::Served;
use crate::world::{self, Item, Lang};
use serde::{Deserialize, Serialize};
use sha2::{Digest, Sha256};
use std::collections::BTreeMap;
use url::Url;

pub const REGISTRY: &str = "https://jsr.io/";

#[derive(Clone, Debug, Serialize, Deserialize, PartialEq, Eq)]
pub enum Exports {
  /// `"exports": "./mod.ts"`
  Single(String),
  /// `"exports": { ".": "./mod.ts", "./sub": "./sub.ts", "./junk": 1 }`
  Map(Vec<(String, Option<String>)>),
}

#[derive(Clone, Debug, Serialize, Deserialize, PartialEq, Eq)]
pub struct RegFile {
  pub lang: Lang,
  pub items: Vec<Item>,
  /// raw source text (generated TypeScript packages); overrides `items`
  #[serde(default, skip_serializing_if = "Option::is_none")]
  pub text: Option<String>,
}

#[derive(Clone, Debug, Serialize, Deserialize, PartialEq, Eq)]
pub struct RegVersion {
  pub version: String,
  pub yanked: bool,
  /// days relative to the epoch used for cut-off dates (None = no createdAt)
  pub created_day: Option<i32>,
  pub exports: Exports,
  /// path (with leading slash) -> file
  pub files: BTreeMap<String, RegFile>,
  /// 0 = no embedded module info, 1 = moduleGraph2, 2 = moduleGraph1
  pub module_graph: u8,
  /// the manifest carries `lockfileChecksum`
  pub lockfile_checksum: bool,
}

#[derive(Clone, Debug, Serialize, Deserialize, PartialEq, Eq)]
pub struct RegPackage {
  /// `@scope/name`
  pub name: String,
  pub versions: Vec<RegVersion>,
}

#[derive(Clone, Debug, Default, Serialize, Deserialize, PartialEq, Eq)]
pub struct Registry {
  pub packages: Vec<RegPackage>,
}

pub fn day_to_rfc3339(day: i32) -> String {
  serde_json::to_value(day_to_datetime(day))
    .unwrap()
    .as_str()
    .unwrap()
    .to_string()
}

pub fn day_to_datetime(day: i32) -> chrono::DateTime<chrono::Utc> {
  let base = chrono::DateTime::parse_from_rfc3339("2024-01-01T00:00:00Z")
    .unwrap()
    .with_timezone(&chrono::Utc);
  base + chrono::Duration::days(day as i64)
}

pub fn sha256_hex(bytes: &[u8]) -> String {
  Sha256::digest(bytes)
    .iter()
    .map(|b| format!("{b:02x}"))
    .collect()
}

pub fn package_url(name: &str, version: &str) -> String {
  format!("{REGISTRY}{name}/{version}/")
}

pub fn file_url(name: &str, version: &str, path: &str) -> String {
  format!("{REGISTRY}{name}/{version}{path}")
}

pub fn file_bytes(f: &RegFile) -> Vec<u8> {
  match &f.text {
    Some(t) => t.clone().into_bytes(),
    None => world::render(f.lang, &f.items).into_bytes(),
  }
}

fn media_type_for(path: &str) -> deno_graph::MediaType {
  deno_graph::MediaType::from_specifier(
    &Url::parse(&format!("https://jsr.io{path}")).unwrap(),
  )
}

/// module info as this analyser produces it from the very source
pub fn module_info_json(
  name: &str,
  version: &str,
  path: &str,
  f: &RegFile,
) -> Option<serde_json::Value> {
  let url = Url::parse(&file_url(name, version, path)).ok()?;
  // (a byte order mark is not part of the analysed text)
  let text = String::from_utf8(file_bytes(f)).ok()?;
  let text: std::sync::Arc<str> = text.strip_prefix('\u{feff}').unwrap_or(&text).into();
  let info = deno_graph::ast::ParserModuleAnalyzer::default()
    .analyze_sync(&url, text, media_type_for(path))
    .ok()?;
  serde_json::to_value(&info).ok()
}

pub fn exports_json(e: &Exports) -> serde_json::Value {
  match e {
    Exports::Single(s) => serde_json::Value::String(s.clone()),
    Exports::Map(m) => {
      let mut o = serde_json::Map::new();
      for (k, v) in m {
        o.insert(
          k.clone(),
          match v {
            Some(s) => serde_json::Value::String(s.clone()),
            None => serde_json::json!(1),
          },
        );
      }
      serde_json::Value::Object(o)
    }
  }
}

pub fn version_manifest_bytes(p: &RegPackage, v: &RegVersion, with_module_graph: bool) -> Vec<u8> {
  let mut manifest = serde_json::Map::new();
  for (path, f) in &v.files {
    let bytes = file_bytes(f);
    manifest.insert(
      path.clone(),
      serde_json::json!({
        "size": bytes.len(),
        "checksum": format!("sha256-{}", sha256_hex(&bytes)),
      }),
    );
  }
  let mut o = serde_json::Map::new();
  o.insert("manifest".into(), serde_json::Value::Object(manifest));
  o.insert("exports".into(), exports_json(&v.exports));
  if with_module_graph && v.module_graph != 0 {
    let mut mg = serde_json::Map::new();
    for (path, f) in &v.files {
      if let Some(info) = module_info_json(&p.name, &v.version, path, f) {
        mg.insert(path.clone(), info);
      }
    }
    // only the v2 form is written here; C13 derives v1 renderings itself
    o.insert("moduleGraph2".into(), serde_json::Value::Object(mg));
  }
  if v.lockfile_checksum {
    o.insert(
      "lockfileChecksum".into(),
      serde_json::Value::String(format!("lock-{}-{}", p.name, v.version)),
    );
  }
  serde_json::to_vec(&serde_json::Value::Object(o)).unwrap()
}

pub fn package_meta_bytes(p: &RegPackage) -> Vec<u8> {
  let mut versions = serde_json::Map::new();
  for v in &p.versions {
    let mut o = serde_json::Map::new();
    if v.yanked {
      o.insert("yanked".into(), serde_json::json!(true));
    }
    if let Some(d) = v.created_day {
      o.insert("createdAt".into(), serde_json::json!(day_to_rfc3339(d)));
    }
    versions.insert(v.version.clone(), serde_json::Value::Object(o));
  }
  serde_json::to_vec(&serde_json::json!({ "versions": versions })).unwrap()
}

pub struct Materialized {
  pub served: BTreeMap<Url, Served>,
  /// URL -> sha256 of the served bytes
  pub sha: BTreeMap<String, String>,
}

pub fn materialize(reg: &Registry, with_module_graph: bool) -> Materialized {
  let mut served = BTreeMap::new();
  let mut sha = BTreeMap::new();
  let mut put = |url: String, bytes: Vec<u8>| {
    let u = Url::parse(&url).unwrap();
    sha.insert(url, sha256_hex(&bytes));
    served.insert(
      u.clone(),
      Served::Module {
        bytes: bytes.into(),
        headers: None,
        final_spec: u,
      },
    );
  };
  for p in &reg.packages {
    put(format!("{REGISTRY}{}/meta.json", p.name), package_meta_bytes(p));
    for v in &p.versions {
      put(
        format!("{REGISTRY}{}/{}_meta.json", p.name, v.version),
        version_manifest_bytes(p, v, with_module_graph),
      );
      for (path, f) in &v.files {
        put(file_url(&p.name, &v.version, path), file_bytes(f));
      }
    }
  }
  Materialized { served, sha }
}

pub const VERSIONS: &[&str] = &[
  "0.9.0",
  "1.0.0",
  "1.0.4",
  "1.1.4",
  "1.2.0-beta.1",
  "2.0.0",
  "2.1.0",
  "3.0.0",
];

pub const REQS: &[&str] = &[
  "*", "^1", "~1.0", "1.0.4", "1", "1.0", "^1.0.4", "~1.1", "^1.1", "2", "^0.9",
  "1.x", "^1.2.0-beta", "^2.1", "^4",
];
