//! C11 — fast check preserves the public API and drops everything else.
//! Oracle: relations between the original and the emitted module computed by
//! one independent AST walk on both sides (export sets, declaration kinds,
//! signature projections compared structurally ignoring spans), plus the
//! generator's recorded retained set.

use crate::fc;
use crate::props::c09::{self, case_strategy, emitted_modules, Case};
use crate::runner::{ExtraReport, Outcome, PropSpec, Tier};
use deno_ast::swc::ast::*;
use deno_ast::swc::common::EqIgnoreSpan;
use deno_graph::{ModuleGraph, ModuleSpecifier};
use std::collections::{BTreeMap, BTreeSet};

pub fn spec() -> PropSpec<Case> {
  PropSpec {
    id: "C11",
    strategy: case_strategy,
    check,
    cases: |tier| tier.pick(30_000, 600_000),
    rule: "generated packages with recorded export sets and recorded retained sets (closure from the entrypoints' exports through signature positions only; references placed in function bodies, initialisers of annotated variables and constructor bodies are implementation positions), plus the spec corpus (export-set, kind and signature clauses only); non-trivial = fast check produced output and the package has a declaration referenced only from an implementation position (it must be dropped) and a declaration that is not an entrypoint export but is named by a public signature (it must be kept); distinct = distinct case JSON",
    assumptions: &[
      "entrypoints are the modules named by the package's exports map",
      "signature projections are compared structurally (swc EqIgnoreSpan on sub-trees parsed without scope analysis); only annotations written in the source are compared",
      "the implementation signature of an overloaded function / method / constructor is not public API and is skipped; `private` and `#private` members are outside 'public member signatures'",
      "the retained-set clause applies to generated packages only (the generator knows which positions are signature positions)",
    ],
    crash_is_violation: false,
    extra: Some(extra),
    level: "exploration",
  }
}

fn parse_plain(
  spec: &ModuleSpecifier,
  text: &str,
  mt: deno_graph::MediaType,
) -> Option<deno_ast::ParsedSource> {
  deno_ast::parse_module(deno_ast::ParseParams {
    specifier: spec.clone(),
    text: text.into(),
    media_type: mt,
    capture_tokens: false,
    scope_analysis: false,
    maybe_syntax: None,
  })
  .ok()
}

/// module-level declarations by name (exported or not)
fn decls_by_name(m: &Module) -> BTreeMap<String, Vec<&Decl>> {
  let mut out: BTreeMap<String, Vec<&Decl>> = BTreeMap::new();
  for item in &m.body {
    let d = match item {
      ModuleItem::ModuleDecl(ModuleDecl::ExportDecl(e)) => &e.decl,
      ModuleItem::Stmt(Stmt::Decl(d)) => d,
      _ => continue,
    };
    let mut names = BTreeSet::new();
    fc::decl_names(d, &mut names);
    for n in names {
      out.entry(n).or_default().push(d);
    }
  }
  out
}

fn type_ann_of(p: &Pat) -> Option<&TsTypeAnn> {
  match p {
    Pat::Ident(i) => i.type_ann.as_deref(),
    Pat::Assign(a) => type_ann_of(&a.left),
    Pat::Rest(r) => r.type_ann.as_deref(),
    Pat::Array(a) => a.type_ann.as_deref(),
    Pat::Object(o) => o.type_ann.as_deref(),
    _ => None,
  }
}

struct Cmp<'a> {
  o: &'a mut Outcome,
  spec: String,
  orig_text: &'a str,
  emitted_text: &'a str,
}

impl Cmp<'_> {
  fn bad(&mut self, sig: &str, what: String) {
    let (a, b) = (self.orig_text, self.emitted_text);
    self.o.violate(
      format!("C11/{sig}"),
      format!("{}: {what}\n--- original\n{a}\n--- emitted\n{b}", self.spec),
    );
  }

  fn params(&mut self, name: &str, what: &str, orig: &[&Pat], emit: &[&Pat]) {
    if orig.len() != emit.len() {
      self.bad(
        &format!("signature/parameter-count/{what}"),
        format!("`{name}`: {} parameters in the source, {} emitted", orig.len(), emit.len()),
      );
      return;
    }
    // the documented normalisation: a parameter that may be omitted (`x?`,
    // `x = d`) stays optional when nothing required follows it, and becomes a
    // required `x: T | undefined` otherwise
    let omittable = |p: &Pat| match p {
      Pat::Assign(_) => true,
      Pat::Ident(i) => i.id.optional,
      _ => false,
    };
    let is_rest = |p: &Pat| matches!(p, Pat::Rest(_));
    for (i, (a, b)) in orig.iter().zip(emit.iter()).enumerate() {
      let required_follows = orig[i + 1..].iter().any(|p| !omittable(p) && !is_rest(p));
      let emitted_optional = omittable(b);
      if omittable(a) && required_follows && emitted_optional {
        self.bad(
          &format!("signature/optional-before-required/{what}"),
          format!("`{name}` parameter {i} may be omitted in the source and is followed by a required parameter, but is emitted as optional"),
        );
      }
      if !omittable(a) && !is_rest(a) && emitted_optional {
        self.bad(
          &format!("signature/required-parameter-made-optional/{what}"),
          format!("`{name}` parameter {i}"),
        );
      }
      if omittable(a) && !required_follows && !emitted_optional && !is_rest(b) {
        self.bad(
          &format!("signature/optional-parameter-made-required/{what}"),
          format!("`{name}` parameter {i}"),
        );
      }
      if let Some(ta) = type_ann_of(a) {
        // `x?: T` may become `x: T | undefined`; `x: T = d` becomes `x?: T`
        let tb = type_ann_of(b);
        let same = tb.map(|tb| tb.type_ann.eq_ignore_span(&ta.type_ann)).unwrap_or(false);
        let widened = tb
          .map(|tb| match &*tb.type_ann {
            TsType::TsUnionOrIntersectionType(TsUnionOrIntersectionType::TsUnionType(u)) => {
              u.types.iter().any(|t| t.eq_ignore_span(&ta.type_ann))
            }
            _ => false,
          })
          .unwrap_or(false);
        if !same && !widened {
          self.bad(
            &format!("signature/parameter-type/{what}"),
            format!("`{name}` parameter {i}: annotation differs"),
          );
        }
      }
    }
  }

  fn function(&mut self, name: &str, what: &str, orig: &Function, emit: &Function) {
    if !orig.type_params.eq_ignore_span(&emit.type_params) {
      self.bad(&format!("signature/type-parameters/{what}"), format!("`{name}`"));
    }
    let op: Vec<&Pat> = orig.params.iter().map(|p| &p.pat).collect();
    let ep: Vec<&Pat> = emit.params.iter().map(|p| &p.pat).collect();
    self.params(name, what, &op, &ep);
    if let Some(r) = &orig.return_type {
      let same = emit
        .return_type
        .as_ref()
        .map(|e| e.type_ann.eq_ignore_span(&r.type_ann))
        .unwrap_or(false);
      if !same {
        self.bad(&format!("signature/return-type/{what}"), format!("`{name}`"));
      }
    }
  }

  fn class(&mut self, name: &str, orig: &Class, emit: &Class) {
    if !orig.type_params.eq_ignore_span(&emit.type_params) {
      self.bad("signature/type-parameters/class", format!("`{name}`"));
    }
    if !orig.super_class.eq_ignore_span(&emit.super_class) {
      self.bad("heritage/extends", format!("class `{name}`"));
    }
    if !orig.super_type_params.eq_ignore_span(&emit.super_type_params) {
      self.bad("heritage/extends-type-arguments", format!("class `{name}`"));
    }
    if !orig.implements.eq_ignore_span(&emit.implements) {
      self.bad("heritage/implements", format!("class `{name}`"));
    }
    if orig.is_abstract != emit.is_abstract {
      self.bad("class-abstract-flag", format!("class `{name}`"));
    }
    let key = |p: &PropName| -> Option<String> {
      match p {
        PropName::Ident(i) => Some(i.sym.to_string()),
        PropName::Str(s) => Some(s.value.to_string_lossy().to_string()),
        PropName::Num(n) => Some(n.value.to_string()),
        _ => None,
      }
    };
    // constructors: parameter types of a non-private constructor (overload
    // signatures when there are overloads) and the properties its parameter
    // properties declare
    {
      let pats = |c: &Constructor| -> Vec<Pat> {
        c.params
          .iter()
          .map(|p| match p {
            ParamOrTsParamProp::Param(p) => p.pat.clone(),
            ParamOrTsParamProp::TsParamProp(pp) => match &pp.param {
              TsParamPropParam::Ident(b) => Pat::Ident(b.clone()),
              TsParamPropParam::Assign(a) => Pat::Assign(a.clone()),
            },
          })
          .collect()
      };
      let octors: Vec<&Constructor> = orig.body.iter().filter_map(|m| match m { ClassMember::Constructor(c) => Some(c), _ => None }).collect();
      let ectors: Vec<&Constructor> = emit.body.iter().filter_map(|m| match m { ClassMember::Constructor(c) => Some(c), _ => None }).collect();
      let public_sigs: Vec<&Constructor> = if octors.len() > 1 {
        octors.iter().copied().filter(|c| c.body.is_none()).collect()
      } else {
        octors.clone()
      };
      let emitted_sigs: Vec<&Constructor> = if octors.len() > 1 {
        ectors.iter().copied().filter(|c| c.body.is_none()).collect()
      } else {
        ectors.clone()
      };
      let any_private = octors.iter().any(|c| c.accessibility == Some(Accessibility::Private));
      if !any_private {
        if public_sigs.len() != emitted_sigs.len() {
          self.bad(
            "signature/constructor-count",
            format!("class `{name}`: {} public constructor signatures in the source, {} emitted", public_sigs.len(), emitted_sigs.len()),
          );
        } else {
          for (oc, ec) in public_sigs.iter().zip(emitted_sigs.iter()) {
            let op = pats(oc);
            let ep = pats(ec);
            let opr: Vec<&Pat> = op.iter().collect();
            let epr: Vec<&Pat> = ep.iter().collect();
            self.params(&format!("{name}.constructor"), "constructor", &opr, &epr);
            if oc.accessibility.filter(|a| *a != Accessibility::Public) != ec.accessibility.filter(|a| *a != Accessibility::Public) {
              self.bad("public-member-modifiers/constructor", format!("class `{name}`"));
            }
          }
        }
        // parameter properties become property declarations
        for oc in &octors {
          for p in &oc.params {
            let ParamOrTsParamProp::TsParamProp(pp) = p else { continue };
            if pp.accessibility == Some(Accessibility::Private) {
              continue;
            }
            let (pname, ty) = match &pp.param {
              TsParamPropParam::Ident(b) => (b.id.sym.to_string(), b.type_ann.as_deref()),
              TsParamPropParam::Assign(a) => match &*a.left {
                Pat::Ident(b) => (b.id.sym.to_string(), b.type_ann.as_deref()),
                _ => continue,
              },
            };
            let ep = emit.body.iter().find_map(|x| match x {
              ClassMember::ClassProp(e) if key(&e.key).as_deref() == Some(pname.as_str()) && !e.is_static => Some(e),
              _ => None,
            });
            // ambient classes are passed through: the parameter property stays
            let kept = ectors.iter().any(|c| {
              c.params.iter().any(|q| match q {
                ParamOrTsParamProp::TsParamProp(e) => {
                  let n = match &e.param {
                    TsParamPropParam::Ident(b) => Some(b.id.sym.to_string()),
                    TsParamPropParam::Assign(a) => match &*a.left {
                      Pat::Ident(b) => Some(b.id.sym.to_string()),
                      _ => None,
                    },
                  };
                  n.as_deref() == Some(pname.as_str()) && e.accessibility == pp.accessibility && e.readonly == pp.readonly
                }
                _ => false,
              })
            });
            if kept {
              continue;
            }
            match ep {
              None => self.bad(
                "public-member-dropped/parameter-property",
                format!("class `{name}`: parameter property `{pname}` has no property declaration in the emitted class"),
              ),
              Some(e) => {
                if let Some(t) = ty {
                  let same = e.type_ann.as_ref().map(|x| x.type_ann.eq_ignore_span(&t.type_ann)).unwrap_or(false);
                  let widened = e
                    .type_ann
                    .as_ref()
                    .map(|x| match &*x.type_ann {
                      TsType::TsUnionOrIntersectionType(TsUnionOrIntersectionType::TsUnionType(u)) => {
                        u.types.iter().any(|y| y.eq_ignore_span(&t.type_ann))
                      }
                      _ => false,
                    })
                    .unwrap_or(false);
                  if !same && !widened {
                    self.bad("signature/parameter-property-type", format!("`{name}.{pname}`"));
                  }
                }
                let norm = |a: Option<Accessibility>| a.filter(|a| *a != Accessibility::Public);
                if norm(pp.accessibility) != norm(e.accessibility) || pp.readonly != e.readonly {
                  self.bad("public-member-modifiers/parameter-property", format!("`{name}.{pname}`"));
                }
              }
            }
          }
        }
      }
    }
    // methods with overloads: only the overload signatures are public
    let mut method_counts: BTreeMap<(String, bool, u8), usize> = BTreeMap::new();
    for m in &orig.body {
      if let ClassMember::Method(m) = m {
        if let Some(k) = key(&m.key) {
          *method_counts.entry((k, m.is_static, m.kind as u8)).or_insert(0) += 1;
        }
      }
    }
    for om in &orig.body {
      match om {
        ClassMember::Method(m) => {
          if m.accessibility == Some(Accessibility::Private) {
            continue;
          }
          let Some(k) = key(&m.key) else { continue };
          if method_counts.get(&(k.clone(), m.is_static, m.kind as u8)).copied().unwrap_or(0) > 1 {
            continue;
          }
          let em = emit.body.iter().find_map(|x| match x {
            ClassMember::Method(e)
              if key(&e.key).as_deref() == Some(k.as_str())
                && e.is_static == m.is_static
                && e.kind == m.kind =>
            {
              Some(e)
            }
            _ => None,
          });
          match em {
            None => self.bad(
              "public-member-dropped/method",
              format!("class `{name}`: public method `{k}` is missing from the emitted class"),
            ),
            Some(e) => {
              self.function(&format!("{name}.{k}"), "method", &m.function, &e.function);
              if m.is_optional != e.is_optional || m.is_abstract != e.is_abstract || m.accessibility != e.accessibility {
                self.bad("public-member-modifiers/method", format!("`{name}.{k}`"));
              }
            }
          }
        }
        ClassMember::ClassProp(p) => {
          if p.accessibility == Some(Accessibility::Private) {
            continue;
          }
          let Some(k) = key(&p.key) else { continue };
          let ep = emit.body.iter().find_map(|x| match x {
            ClassMember::ClassProp(e)
              if key(&e.key).as_deref() == Some(k.as_str()) && e.is_static == p.is_static =>
            {
              Some(e)
            }
            _ => None,
          });
          match ep {
            None => self.bad(
              "public-member-dropped/property",
              format!("class `{name}`: public property `{k}` is missing from the emitted class"),
            ),
            Some(e) => {
              if let Some(t) = &p.type_ann {
                let same = e
                  .type_ann
                  .as_ref()
                  .map(|x| x.type_ann.eq_ignore_span(&t.type_ann))
                  .unwrap_or(false);
                if !same {
                  self.bad("signature/property-type", format!("`{name}.{k}`"));
                }
              }
              if p.readonly != e.readonly || p.is_optional != e.is_optional || p.accessibility != e.accessibility {
                self.bad("public-member-modifiers/property", format!("`{name}.{k}`"));
              }
            }
          }
        }
        _ => {}
      }
    }
  }

  fn decl(&mut self, name: &str, orig: &[&Decl], emit: &[&Decl]) {
    let ok: BTreeSet<&'static str> = orig.iter().map(|d| fc::decl_kind(d)).collect();
    let ek: BTreeSet<&'static str> = emit.iter().map(|d| fc::decl_kind(d)).collect();
    // expando properties (`function f() {}; f.prop = ...`) are emitted as
    // a namespace merged with the function / variable / class
    let mut ok = ok;
    if ok.iter().any(|k| matches!(*k, "function" | "var" | "class")) {
      ok.insert("namespace");
    }
    if !ek.is_subset(&ok) {
      self.bad(
        "declaration-kind-changed",
        format!("`{name}`: source kinds {ok:?}, emitted kinds {ek:?}"),
      );
      return;
    }
    for e in emit {
      match e {
        Decl::TsInterface(ei) => {
          // merged interfaces: some source declaration must be identical
          let same = orig.iter().any(|o| match o {
            Decl::TsInterface(oi) => {
              oi.extends.eq_ignore_span(&ei.extends)
                && oi.type_params.eq_ignore_span(&ei.type_params)
                && oi.body.eq_ignore_span(&ei.body)
            }
            _ => false,
          });
          if !same {
            self.bad("signature/interface", format!("interface `{name}` differs from every source declaration"));
          }
        }
        Decl::TsTypeAlias(ea) => {
          let same = orig.iter().any(|o| match o {
            Decl::TsTypeAlias(oa) => {
              oa.type_params.eq_ignore_span(&ea.type_params)
                && oa.type_ann.eq_ignore_span(&ea.type_ann)
            }
            _ => false,
          });
          if !same {
            self.bad("signature/type-alias", format!("type `{name}`"));
          }
        }
        Decl::TsEnum(ee) => {
          let same = orig.iter().any(|o| match o {
            Decl::TsEnum(oe) => {
              oe.is_const == ee.is_const
                && oe.members.len() == ee.members.len()
                && oe.members.iter().zip(ee.members.iter()).all(|(a, b)| a.id.eq_ignore_span(&b.id))
            }
            _ => false,
          });
          if !same {
            self.bad("signature/enum", format!("enum `{name}`"));
          }
        }
        Decl::Class(ec) => {
          if let Some(Decl::Class(oc)) = orig.iter().find(|o| matches!(o, Decl::Class(_))) {
            self.class(name, &oc.class, &ec.class);
          }
        }
        Decl::Fn(ef) => {
          let fns: Vec<&&Decl> = orig.iter().filter(|o| matches!(o, Decl::Fn(_))).collect();
          if fns.len() == 1 {
            if let Decl::Fn(of) = fns[0] {
              self.function(name, "function", &of.function, &ef.function);
            }
          } else if ef.function.body.is_none() {
            // an overload signature: it must equal one of the source overloads
            let same = fns.iter().any(|o| match o {
              Decl::Fn(of) => {
                of.function.body.is_none()
                  && of.function.params.len() == ef.function.params.len()
                  && of.function.return_type.eq_ignore_span(&ef.function.return_type)
                  && of
                    .function
                    .params
                    .iter()
                    .zip(ef.function.params.iter())
                    .all(|(a, b)| match (type_ann_of(&a.pat), type_ann_of(&b.pat)) {
                      (Some(x), Some(y)) => x.eq_ignore_span(y),
                      (None, _) => true,
                      _ => false,
                    })
              }
              _ => false,
            });
            if !same {
              self.bad("signature/overload", format!("`{name}`: emitted overload matches no source overload"));
            }
          }
        }
        Decl::Var(ev) => {
          for ed in &ev.decls {
            let Pat::Ident(ei) = &ed.name else { continue };
            if ei.id.sym != *name {
              continue;
            }
            for o in orig {
              if let Decl::Var(ov) = o {
                if ov.kind != ev.kind {
                  self.bad("variable-kind-changed", format!("`{name}`: {:?} -> {:?}", ov.kind, ev.kind));
                }
                for od in &ov.decls {
                  if let Pat::Ident(oi) = &od.name {
                    if oi.id.sym == *name {
                      if let Some(t) = &oi.type_ann {
                        let same = ei
                          .type_ann
                          .as_ref()
                          .map(|x| x.type_ann.eq_ignore_span(&t.type_ann))
                          .unwrap_or(false);
                        if !same {
                          self.bad("signature/variable-type", format!("`{name}`"));
                        }
                      }
                    }
                  }
                }
              }
            }
          }
        }
        Decl::TsModule(_) | Decl::Using(_) => {}
      }
    }
  }
}

/// clauses (a), (b), (c) for one module
pub fn check_module(
  graph: &ModuleGraph,
  spec: &ModuleSpecifier,
  original: &str,
  emitted: &str,
  mt: deno_graph::MediaType,
  is_entrypoint: bool,
  o: &mut Outcome,
) -> Option<BTreeSet<String>> {
  let orig = parse_plain(spec, original, mt)?;
  let emit = parse_plain(spec, emitted, mt)?;
  let oe = fc::export_set(&orig);
  let ee = fc::export_set(&emit);
  let text_o = original;
  let text_e = emitted;
  let mut cmp = Cmp {
    o,
    spec: spec.to_string(),
    orig_text: text_o,
    emitted_text: text_e,
  };
  if is_entrypoint {
    if oe.names != ee.names {
      let missing: Vec<_> = oe.names.difference(&ee.names).collect();
      let extra: Vec<_> = ee.names.difference(&oe.names).collect();
      cmp.bad(
        &format!(
          "entrypoint-exports/{}",
          if !missing.is_empty() { "name-lost" } else { "name-invented" }
        ),
        format!("exported names differ: lost {missing:?}, invented {extra:?}"),
      );
    }
    // relative specifiers are rewritten to the types module by design:
    // compare what they resolve to
    let resolve_src = |t: &String| -> String {
      graph
        .resolve_dependency(t, spec, true)
        .map(|s| s.to_string())
        .unwrap_or_else(|| t.clone())
    };
    let resolve_emit = |t: &String| -> String {
      deno_graph::resolve_import(t, spec)
        .map(|u| graph.resolve(&u).to_string())
        .unwrap_or_else(|_| t.clone())
    };
    let mut os: Vec<String> = oe.stars.iter().map(resolve_src).collect();
    let mut es: Vec<String> = ee.stars.iter().map(resolve_emit).collect();
    os.sort();
    es.sort();
    if os != es {
      cmp.bad(
        "entrypoint-exports/star-re-exports",
        format!("star re-exports: source {:?}, emitted {:?}", oe.stars, ee.stars),
      );
    }
  } else {
    let extra: Vec<_> = ee.names.difference(&oe.names).collect();
    if !extra.is_empty() {
      cmp.bad(
        "non-entrypoint-exports/name-invented",
        format!("emitted module exports names the source does not: {extra:?}"),
      );
    }
    for s in &ee.stars {
      if !oe.stars.contains(s) {
        cmp.bad("non-entrypoint-exports/star-invented", format!("{s}"));
      }
    }
  }
  let (deno_ast::ProgramRef::Module(om), deno_ast::ProgramRef::Module(em)) =
    (orig.program_ref(), emit.program_ref())
  else {
    return None;
  };
  let od = decls_by_name(om);
  let ed = decls_by_name(em);
  for (name, edecls) in &ed {
    match od.get(name) {
      None => cmp.bad(
        "declaration-invented",
        format!("the emitted module declares `{name}`, the source does not"),
      ),
      Some(odecls) => cmp.decl(name, odecls, edecls),
    }
  }
  Some(ed.keys().cloned().collect())
}

/// Exported member names of the namespace `name` declared at the top level
/// of `module` (merged blocks united, nested exported namespaces qualified).
fn namespace_members(module: &Module, name: &str) -> Option<BTreeSet<String>> {
  fn block(body: &TsNamespaceBody, prefix: &str, out: &mut BTreeSet<String>) {
    match body {
      TsNamespaceBody::TsModuleBlock(b) => {
        for item in &b.body {
          if let ModuleItem::ModuleDecl(ModuleDecl::ExportDecl(e)) = item {
            let mut names = BTreeSet::new();
            fc::decl_names(&e.decl, &mut names);
            for n in &names {
              out.insert(format!("{prefix}{n}"));
            }
            if let Decl::TsModule(m) = &e.decl {
              if let (TsModuleName::Ident(i), Some(body)) = (&m.id, &m.body) {
                block(body, &format!("{prefix}{}.", i.sym), out);
              }
            }
          }
        }
      }
      TsNamespaceBody::TsNamespaceDecl(d) => {
        out.insert(format!("{prefix}{}", d.id.sym));
        block(&d.body, &format!("{prefix}{}.", d.id.sym), out);
      }
    }
  }
  let mut found = false;
  let mut out = BTreeSet::new();
  for item in &module.body {
    let decl = match item {
      ModuleItem::ModuleDecl(ModuleDecl::ExportDecl(e)) => &e.decl,
      ModuleItem::Stmt(Stmt::Decl(d)) => d,
      _ => continue,
    };
    if let Decl::TsModule(m) = decl {
      if let TsModuleName::Ident(i) = &m.id {
        if i.sym == *name {
          found = true;
          if let Some(body) = &m.body {
            block(body, "", &mut out);
          }
        }
      }
    }
  }
  found.then_some(out)
}

/// A namespace that is public as a whole keeps every exported member.
pub fn check_whole_namespace(
  spec: &ModuleSpecifier,
  original: &str,
  emitted: &str,
  mt: deno_graph::MediaType,
  name: &str,
  o: &mut Outcome,
) {
  let (Some(po), Some(pe)) = (parse_plain(spec, original, mt), parse_plain(spec, emitted, mt)) else { return };
  let (deno_ast::ProgramRef::Module(mo), deno_ast::ProgramRef::Module(me)) = (po.program_ref(), pe.program_ref()) else { return };
  let Some(want) = namespace_members(mo, name) else { return };
  let got = namespace_members(me, name).unwrap_or_default();
  let lost: Vec<&String> = want.difference(&got).collect();
  // members nested under an existing member are the namespace synthesised for
  // its expando properties (`f.prop = ...` becomes `namespace f { ... }`)
  let invented: Vec<&String> = got
    .difference(&want)
    .filter(|n| !want.iter().any(|w| n.starts_with(&format!("{w}."))))
    .collect();
  if !lost.is_empty() || !invented.is_empty() {
    o.violate(
      "C11/namespace-members-differ",
      format!("{spec}: namespace `{name}` is public as a whole but its exported members differ: lost {lost:?}, invented {invented:?}\n--- original\n{original}\n--- emitted\n{emitted}"),
    );
  }
}

pub fn entrypoints_of(graph: &ModuleGraph) -> BTreeSet<ModuleSpecifier> {
  // package_exports(nv) values joined to the package URL
  let mut out = BTreeSet::new();
  let provider = deno_graph::source::DefaultJsrUrlProvider;
  use deno_graph::source::JsrUrlProvider;
  for (nv, _) in graph.packages.packages_with_deps() {
    if let Some(exports) = graph.packages.package_exports(nv) {
      let base = provider.package_url(nv);
      for v in exports.values() {
        if let Ok(u) = base.join(v) {
          out.insert(u);
        }
      }
    }
  }
  out
}

pub fn check_graph(
  graph: &ModuleGraph,
  entrypoints: &BTreeSet<ModuleSpecifier>,
  o: &mut Outcome,
) -> BTreeMap<ModuleSpecifier, BTreeSet<String>> {
  let mut out = BTreeMap::new();
  for (spec, original, emitted, _, mt) in emitted_modules(graph) {
    if let Some(names) =
      check_module(graph, &spec, &original, &emitted, mt, entrypoints.contains(&spec), o)
    {
      out.insert(spec, names);
    }
  }
  out
}

pub fn check(case: &Case, _tier: Tier) -> Outcome {
  let mut o = Outcome::default();
  let p = c09::prepare(case, None);
  if p.graph.module_errors().next().is_some() {
    o.discarded = true;
    return o;
  }
  let mut entrypoints: BTreeSet<ModuleSpecifier> = BTreeSet::new();
  for (k, pkg) in p.pkgs.iter().enumerate() {
    let base = if p.workspace {
      "file:///ws/".to_string()
    } else {
      fc::package_base(k)
    };
    for e in &pkg.rec.entrypoints {
      entrypoints.insert(
        ModuleSpecifier::parse(&format!("{}{}", base, e.trim_start_matches('/'))).unwrap(),
      );
    }
  }
  let declared = check_graph(&p.graph, &entrypoints, &mut o);
  // (d) retained set (generated packages only)
  let mut nontrivial = false;
  for (k, pkg) in p.pkgs.iter().enumerate() {
    let base = if p.workspace {
      "file:///ws/".to_string()
    } else {
      fc::package_base(k)
    };
    let has_output = declared.keys().any(|s| s.as_str().starts_with(&base));
    if !has_output {
      continue;
    }
    if pkg.rec.has_impl_only_private && pkg.rec.has_sig_private {
      nontrivial = true;
    }
    for (path, name) in &pkg.rec.whole_namespaces {
      let spec =
        ModuleSpecifier::parse(&format!("{}{}", base, path.trim_start_matches('/'))).unwrap();
      for (s2, original, emitted, _, mt) in emitted_modules(&p.graph) {
        if s2 == spec {
          check_whole_namespace(&spec, &original, &emitted, mt, name, &mut o);
        }
      }
    }
    for (path, names) in &pkg.rec.declared {
      let spec =
        ModuleSpecifier::parse(&format!("{}{}", base, path.trim_start_matches('/'))).unwrap();
      let emitted_names = declared.get(&spec).cloned().unwrap_or_default();
      for n in names {
        if pkg.rec.maybe_retained.contains(&(path.clone(), n.clone())) {
          continue;
        }
        let expected = pkg.rec.retained.contains(&(path.clone(), n.clone()));
        let got = emitted_names.contains(n);
        if expected && !got {
          o.violate(
            "C11/retained-set/public-declaration-dropped",
            format!("{spec}: `{n}` is reachable from the public API through signature positions but is not in the emitted module\n{}", fc::dump(&p.graph)),
          );
        } else if !expected && got {
          o.violate(
            "C11/retained-set/unreferenced-declaration-survives",
            format!("{spec}: `{n}` is neither exported from an entrypoint nor referenced from a signature position, yet it is emitted\n--- source\n{}\n{}", pkg.files.get(path).cloned().unwrap_or_default(), fc::dump(&p.graph)),
          );
        }
      }
    }
  }
  if nontrivial {
    o.label("impl-only-private-and-signature-private");
  }
  c09::mark_named_cycle(&p.pkgs, &mut o);
  o.nontrivial = nontrivial;
  o
}

pub fn extra(_tier: Tier, _seed: u64) -> ExtraReport {
  c09::corpus_layer("C11", |g, o| {
    let entry = entrypoints_of(g);
    check_graph(g, &entry, o);
    // namespaces an entrypoint exports itself are public as a whole
    for (spec, original, emitted, _, mt) in emitted_modules(g) {
      if !entry.contains(&spec) {
        continue;
      }
      let Some(po) = parse_plain(&spec, &original, mt) else { continue };
      let deno_ast::ProgramRef::Module(mo) = po.program_ref() else { continue };
      for item in &mo.body {
        if let ModuleItem::ModuleDecl(ModuleDecl::ExportDecl(e)) = item {
          if let Decl::TsModule(m) = &e.decl {
            if let TsModuleName::Ident(i) = &m.id {
              check_whole_namespace(&spec, &original, &emitted, mt, &i.sym, o);
            }
          }
        }
      }
    }
  })
}
