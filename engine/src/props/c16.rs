//! C16 — symbol tables are well-formed trees and export resolution follows
//! ES rules. Oracles: (1) a validity predicate over every module's symbol
//! table (tree shape, ids, names, ranges); (2) a reference computation of the
//! resolved export set - least fixpoint of own ∪ star \ default - from an
//! independent AST walk of each module's export statements, compared with
//! `ModuleInfoRef::exports` name by name and hop by hop; (3) termination and
//! answer shape of go-to-definition from every symbol and of every
//! declaration dependency. Generated multi-module programs plus the symbol /
//! graph spec corpus.

use crate::harness::{build_into, parse_roots, BuildEnv, Schedule, Served, WorldLoader};
use crate::props::c09::corpus_specs;
use crate::runner::{ExtraReport, Outcome, PropSpec, Tier, Violation};
use crate::symgen::{self, RawProg};
use deno_ast::swc::ast;
use deno_graph::symbols::{
  DefinitionKind, DefinitionOrUnresolved, DefinitionPathNode, DefinitionPathNodeResolved, FileDepName, ModuleInfoRef,
  ResolveDepsMode, ResolvedExportOrReExportAllPath, ResolvedSymbolDepEntry, RootSymbol, SymbolDeclKind, SymbolId,
};
use deno_graph::{ModuleGraph, ModuleSpecifier};
use proptest::prelude::*;
use serde::{Deserialize, Serialize};
use std::collections::{BTreeMap, BTreeSet, HashSet};

#[derive(Clone, Debug, Serialize, Deserialize)]
pub struct Case {
  pub prog: RawProg,
}

pub fn spec() -> PropSpec<Case> {
  PropSpec {
    id: "C16",
    strategy: |tier| symgen::program_strategy(tier.pick(5, 7)).prop_map(|prog| Case { prog }).boxed(),
    check,
    cases: |tier| tier.pick(20_000, 400_000),
    rule: "generated programs of 1-5 (thorough: 7) modules (.ts / .tsx / .d.ts / .mts, optional JSON module) with up to 6 top-level declarations each of every kind (class, interface, type alias, enum, function with overloads, variable incl. destructuring, namespace incl. dotted / nested / `module` keyword / ambient), declaration merging where TypeScript merges, class static / instance / private / computed / accessor / index / parameter-property members, interface members of every kind, expando properties, named / default / namespace / type-only imports, import-equals (qualified and require), local export aliases, named / default / namespace / type-only re-exports, every default-export form, `export =`, and star re-exports between random modules (self loops and cycles included); names come from shared pools so own names, aliases and star names collide; plus the symbols / graph / ecosystem-free spec corpus; non-trivial = the program has a star re-export cycle or a name offered both as an own export and through a star, and at least one merged declaration or namespace; distinct = distinct case JSON",
    assumptions: &[
      "generated programs contain no duplicate-identifier errors: declarations share a name in one scope only where TypeScript merges them (interface+interface, class+interface, namespace after class / function / enum / namespace, enum+enum, one value-only with type-only declarations); two star re-exports may offer the same name (which of them wins is not constrained, only that the winner is a module on a star path that owns the name)",
      "'reachable from its parent exactly once' is required of symbols whose declarations are all definitions; symbols made only of import / export aliases are reached through the export map or the identifier table and are required to be reachable at most once (the repository's own spec helper draws the same line)",
      "a module's own exports are read from its export statements by an independent AST walk (export declarations incl. destructuring, export lists with and without source, `* as ns`, default declarations / expressions, `export import`, `export =` as `default`)",
      "star edges are resolved with ModuleGraph::resolve_dependency (prefer types), as the analyser does; an unresolvable or unanalysable target contributes nothing",
      "the per-case watchdog of the runner (VP_CASE_TIMEOUT_S, 120 s) decides 'finite time'; a confirmed hang or panic is a violation",
    ],
    crash_is_violation: true,
    extra: Some(extra),
    level: "exploration",
  }
}

pub fn graph_of(files: &[(String, String)]) -> ModuleGraph {
  let mut served = BTreeMap::new();
  let mut roots = Vec::new();
  for (path, text) in files {
    let u = url::Url::parse(&format!("file://{path}")).unwrap();
    if !path.ends_with(".json") {
      roots.push(u.to_string());
    }
    served.insert(
      u.clone(),
      Served::Module {
        bytes: text.clone().into_bytes().into(),
        headers: None,
        final_spec: u,
      },
    );
  }
  let loader = WorldLoader::new(served);
  let opts = crate::world::Opts::default();
  let mut graph = ModuleGraph::new(opts.graph_kind());
  build_into(
    &mut graph,
    parse_roots(&roots),
    vec![],
    BuildEnv {
      loader: &loader,
      opts: &opts,
      locker: None,
      npm: None,
      jsr_version_resolver: None,
      prefer_cached: false,
    },
    &Schedule::default(),
    false,
  )
  .expect("ungated build");
  graph
}

fn export_name(n: &ast::ModuleExportName) -> String {
  match n {
    ast::ModuleExportName::Ident(i) => i.sym.to_string(),
    ast::ModuleExportName::Str(s) => s.value.to_string_lossy().to_string(),
  }
}

fn pat_names(p: &ast::Pat, out: &mut BTreeSet<String>) {
  match p {
    ast::Pat::Ident(i) => {
      out.insert(i.id.sym.to_string());
    }
    ast::Pat::Array(a) => {
      for e in a.elems.iter().flatten() {
        pat_names(e, out);
      }
    }
    ast::Pat::Rest(r) => pat_names(&r.arg, out),
    ast::Pat::Object(o) => {
      for p in &o.props {
        match p {
          ast::ObjectPatProp::KeyValue(kv) => pat_names(&kv.value, out),
          ast::ObjectPatProp::Assign(a) => {
            out.insert(a.key.id.sym.to_string());
          }
          ast::ObjectPatProp::Rest(r) => pat_names(&r.arg, out),
        }
      }
    }
    ast::Pat::Assign(a) => pat_names(&a.left, out),
    _ => {}
  }
}

#[derive(Default, Debug, Clone)]
pub struct OwnExports {
  pub names: BTreeSet<String>,
  pub stars: Vec<String>,
  /// the module has an `export =` (TypeScript specific; whether it counts as
  /// a `default` export is left to the analyser)
  pub export_assignment: bool,
}

/// Independent reading of a module's export statements.
pub fn own_exports(spec: &ModuleSpecifier, text: &str, mt: deno_graph::MediaType) -> Option<OwnExports> {
  let parsed = deno_ast::parse_program(deno_ast::ParseParams {
    specifier: spec.clone(),
    text: text.into(),
    media_type: mt,
    capture_tokens: false,
    scope_analysis: false,
    maybe_syntax: None,
  })
  .ok()?;
  let mut out = OwnExports::default();
  let deno_ast::ProgramRef::Module(module) = parsed.program_ref() else {
    return Some(out);
  };
  for item in &module.body {
    let ast::ModuleItem::ModuleDecl(md) = item else { continue };
    match md {
      ast::ModuleDecl::ExportDecl(e) => match &e.decl {
        ast::Decl::Class(c) => {
          out.names.insert(c.ident.sym.to_string());
        }
        ast::Decl::Fn(f) => {
          out.names.insert(f.ident.sym.to_string());
        }
        ast::Decl::Var(v) => {
          for d in &v.decls {
            pat_names(&d.name, &mut out.names);
          }
        }
        ast::Decl::Using(_) => {}
        ast::Decl::TsInterface(i) => {
          out.names.insert(i.id.sym.to_string());
        }
        ast::Decl::TsTypeAlias(t) => {
          out.names.insert(t.id.sym.to_string());
        }
        ast::Decl::TsEnum(e) => {
          out.names.insert(e.id.sym.to_string());
        }
        ast::Decl::TsModule(m) => {
          if let ast::TsModuleName::Ident(i) = &m.id {
            out.names.insert(i.sym.to_string());
          }
        }
      },
      ast::ModuleDecl::ExportNamed(n) => {
        for s in &n.specifiers {
          match s {
            ast::ExportSpecifier::Named(n) => {
              out.names.insert(export_name(n.exported.as_ref().unwrap_or(&n.orig)));
            }
            ast::ExportSpecifier::Namespace(n) => {
              out.names.insert(export_name(&n.name));
            }
            ast::ExportSpecifier::Default(d) => {
              out.names.insert(d.exported.sym.to_string());
            }
          }
        }
      }
      ast::ModuleDecl::ExportDefaultDecl(_) => {
        out.names.insert("default".into());
      }
      ast::ModuleDecl::ExportDefaultExpr(_) => {
        out.names.insert("default".into());
      }
      ast::ModuleDecl::TsExportAssignment(_) => {
        out.export_assignment = true;
      }
      ast::ModuleDecl::TsImportEquals(i) => {
        if i.is_export {
          out.names.insert(i.id.sym.to_string());
        }
      }
      ast::ModuleDecl::ExportAll(a) => {
        if let Some(s) = a.src.value.as_str() {
          out.stars.push(s.to_string());
        }
      }
      _ => {}
    }
  }
  Some(out)
}

struct Stats {
  symbols: usize,
  definitions: usize,
  unresolveds: usize,
  deps: usize,
  merged_symbols: usize,
  star_names: usize,
  own_shadowing_star: usize,
  star_cycle: bool,
}

fn vio(o: &mut Outcome, sig: &str, msg: String) {
  if !o.violations.iter().any(|v| v.sig == sig) {
    o.violate(sig, msg);
  }
}

fn tree_checks(spec_s: &str, module: ModuleInfoRef<'_>, o: &mut Outcome, st: &mut Stats) {
  let text_range = module.text_info().range();
  let root_id = module.module_symbol().symbol_id();
  let ids: BTreeSet<SymbolId> = module.symbols().map(|s| s.symbol_id()).collect();
  for symbol in module.symbols() {
    st.symbols += 1;
    let sid = symbol.symbol_id();
    // ids exist
    for (name, id) in symbol.exports() {
      if !ids.contains(id) {
        vio(o, "C16/tree/export-id-missing", format!("{spec_s}: symbol {sid:?} exports {name:?} -> {id:?}, which does not exist"));
      }
    }
    for id in symbol.child_ids() {
      if !ids.contains(&id) {
        vio(o, "C16/tree/child-id-missing", format!("{spec_s}: symbol {sid:?} has child {id:?}, which does not exist"));
      }
    }
    for id in symbol.members() {
      if !ids.contains(id) {
        vio(o, "C16/tree/member-id-missing", format!("{spec_s}: symbol {sid:?} has member {id:?}, which does not exist"));
      }
    }
    // names
    let name = symbol.maybe_name();
    for decl in symbol.decls() {
      if decl.maybe_name() != name {
        vio(
          o,
          "C16/tree/decl-name-differs",
          format!(
            "{spec_s}: symbol {sid:?} named {name:?} has a declaration named {:?}\n{}",
            decl.maybe_name(),
            module.text()
          ),
        );
      }
      // ranges
      if decl.range.start < text_range.start || decl.range.end > text_range.end || decl.range.start > decl.range.end {
        vio(
          o,
          "C16/tree/decl-range-outside-text",
          format!("{spec_s}: symbol {sid:?} declaration range {:?} outside text {:?}", decl.range, text_range),
        );
      }
    }
    if symbol.decls().len() > 1 {
      st.merged_symbols += 1;
    }
    // parent link
    match symbol.parent_id() {
      None => {
        if sid != root_id {
          vio(o, "C16/tree/second-root", format!("{spec_s}: symbol {sid:?} has no parent but is not the module symbol"));
        }
      }
      Some(pid) => {
        if sid == root_id {
          vio(o, "C16/tree/root-has-parent", format!("{spec_s}: the module symbol has parent {pid:?}"));
        }
        let Some(parent) = module.symbol(pid) else {
          vio(o, "C16/tree/parent-id-missing", format!("{spec_s}: symbol {sid:?} has parent {pid:?}, which does not exist"));
          continue;
        };
        let as_child = parent.child_ids().filter(|c| *c == sid).count();
        let as_member = parent.members().iter().filter(|c| **c == sid).count();
        if as_child > 0 && as_member > 0 {
          vio(
            o,
            "C16/tree/child-and-member",
            format!("{spec_s}: symbol {sid:?} ({name:?}) is both a child and a member of {pid:?}\n{}", module.text()),
          );
        }
        if as_child + as_member > 1 {
          vio(o, "C16/tree/reachable-twice-from-parent", format!("{spec_s}: symbol {sid:?} listed {as_child}+{as_member} times by {pid:?}"));
        }
        let all_definitions = symbol.decls().iter().all(|d| d.kind.is_definition());
        if all_definitions && as_child + as_member == 0 {
          vio(
            o,
            "C16/tree/unreachable-from-parent",
            format!("{spec_s}: symbol {sid:?} ({name:?}) is neither a child nor a member of its parent {pid:?}\n{}", module.text()),
          );
        }
        // root reachable through parents
        let mut cur = symbol;
        let mut steps = 0;
        while let Some(p) = cur.parent_id() {
          let Some(ps) = module.symbol(p) else { break };
          cur = ps;
          steps += 1;
          if steps > ids.len() + 1 {
            vio(o, "C16/tree/parent-cycle", format!("{spec_s}: parent chain of {sid:?} does not reach the module symbol"));
            break;
          }
        }
      }
    }
  }
  // a tree: nothing is reached over two paths, and what is reached hangs
  // under the symbol it names as its parent
  let mut visited: BTreeSet<SymbolId> = BTreeSet::new();
  let mut stack = vec![(root_id, None::<SymbolId>)];
  while let Some((id, via)) = stack.pop() {
    let Some(s) = module.symbol(id) else { continue };
    if !visited.insert(id) {
      vio(o, "C16/tree/multiple-paths", format!("{spec_s}: symbol {id:?} is reachable from the module symbol over several paths\n{}", module.text()));
      continue;
    }
    if via.is_some() && s.parent_id() != via {
      vio(
        o,
        "C16/tree/listed-by-non-parent",
        format!("{spec_s}: symbol {id:?} is listed by {via:?} but names {:?} as its parent\n{}", s.parent_id(), module.text()),
      );
    }
    for c in s.child_ids() {
      stack.push((c, Some(id)));
    }
    for m in s.members() {
      stack.push((*m, Some(id)));
    }
  }
}

fn walk_leaves<'a>(node: &DefinitionPathNode<'a>, depth: usize, o: &mut Outcome, spec_s: &str, st: &mut Stats) {
  if depth > 10_000 {
    vio(o, "C16/goto/path-too-deep", format!("{spec_s}: definition path deeper than 10000 links"));
    return;
  }
  match node {
    DefinitionPathNode::Resolved(DefinitionPathNodeResolved::Link(link)) => {
      // (a link without continuation yields nothing, which the statement
      // does not forbid)
      if link.next.is_empty() {
        o.label("goto-link-without-continuation");
      }
      for n in &link.next {
        walk_leaves(n, depth + 1, o, spec_s, st);
      }
    }
    DefinitionPathNode::Resolved(DefinitionPathNodeResolved::Definition(def)) => {
      st.definitions += 1;
      check_definition(def, o, spec_s);
    }
    DefinitionPathNode::Unresolved(_) => {
      st.unresolveds += 1;
    }
  }
}

fn check_definition(def: &deno_graph::symbols::Definition<'_>, o: &mut Outcome, spec_s: &str) {
  let ok_kind = match (&def.kind, &def.symbol_decl.kind) {
    (DefinitionKind::Definition, SymbolDeclKind::Definition(_)) => true,
    (DefinitionKind::ExportStar(_), SymbolDeclKind::FileRef(f)) => f.name == FileDepName::Star,
    _ => false,
  };
  if !ok_kind {
    vio(
      o,
      "C16/goto/answer-is-not-a-definition",
      format!("{spec_s}: go-to-definition answered with a declaration that is neither a definition nor a namespace re-export: {:?}", def.symbol_decl.kind),
    );
  }
  // the answer lives in the module it names
  match def.module.symbol(def.symbol.symbol_id()) {
    Some(s) if s.unique_id() == def.symbol.unique_id() => {}
    _ => vio(o, "C16/goto/answer-symbol-not-in-module", format!("{spec_s}: answered symbol {:?} is not a symbol of {}", def.symbol.unique_id(), def.module.specifier())),
  }
  let tr = def.module.text_info().range();
  if def.range().start < tr.start || def.range().end > tr.end {
    vio(o, "C16/goto/answer-range-outside-text", format!("{spec_s}: answered range outside the text of {}", def.module.specifier()));
  }
}

/// Everything about one built graph.
pub fn check_graph(graph: &ModuleGraph, o: &mut Outcome) -> (usize, bool, usize, usize) {
  let parser = deno_graph::ast::DefaultEsParser;
  let root = RootSymbol::new(graph, &parser);
  let mut st = Stats {
    symbols: 0,
    definitions: 0,
    unresolveds: 0,
    deps: 0,
    merged_symbols: 0,
    star_names: 0,
    own_shadowing_star: 0,
    star_cycle: false,
  };
  let mut specs: Vec<ModuleSpecifier> = graph.specifiers().map(|(s, _)| s.clone()).collect();
  specs.sort();
  specs.dedup();
  // analysed modules by their own specifier
  let mut modules: BTreeMap<String, ModuleInfoRef<'_>> = BTreeMap::new();
  for s in &specs {
    if let Some(m) = root.module_from_specifier(s) {
      modules.entry(m.specifier().to_string()).or_insert(m);
    }
  }
  // own exports by independent walk
  let mut own: BTreeMap<String, OwnExports> = BTreeMap::new();
  for (k, m) in &modules {
    match m {
      ModuleInfoRef::Json(_) => {
        own.insert(
          k.clone(),
          OwnExports {
            names: BTreeSet::from(["default".to_string()]),
            stars: vec![],
            export_assignment: false,
          },
        );
      }
      ModuleInfoRef::Esm(e) => {
        if let Some(mut x) = own_exports(e.specifier(), m.text(), e.source().media_type()) {
          if x.export_assignment {
            if m.module_symbol().export("default").is_some() {
              x.names.insert("default".into());
            } else {
              x.names.remove("default");
            }
          }
          own.insert(k.clone(), x);
        }
      }
    }
  }
  // star edges, resolved like the analyser resolves them
  let mut edges: BTreeMap<String, Vec<(String, Option<String>)>> = BTreeMap::new();
  for (k, x) in &own {
    let referrer = modules[k].specifier();
    let mut v = Vec::new();
    for s in &x.stars {
      let target = graph
        .resolve_dependency(s, referrer, true)
        .and_then(|t| root.module_from_specifier(t))
        .map(|m| m.specifier().to_string());
      v.push((s.clone(), target));
    }
    edges.insert(k.clone(), v);
  }
  // reference fixpoint
  let mut resolved: BTreeMap<String, BTreeSet<String>> = own.iter().map(|(k, v)| (k.clone(), v.names.clone())).collect();
  loop {
    let mut changed = false;
    let keys: Vec<String> = resolved.keys().cloned().collect();
    for k in keys {
      for (_, t) in edges.get(&k).cloned().unwrap_or_default() {
        let Some(t) = t else { continue };
        let Some(tn) = resolved.get(&t).cloned() else { continue };
        let r = resolved.get_mut(&k).unwrap();
        for n in tn {
          if n != "default" && r.insert(n) {
            changed = true;
          }
        }
      }
    }
    if !changed {
      break;
    }
  }
  // star cycle?
  for start in edges.keys() {
    let mut seen = BTreeSet::new();
    let mut stack: Vec<String> = edges[start].iter().filter_map(|e| e.1.clone()).collect();
    while let Some(x) = stack.pop() {
      if &x == start {
        st.star_cycle = true;
        break;
      }
      if seen.insert(x.clone()) {
        if let Some(e) = edges.get(&x) {
          stack.extend(e.iter().filter_map(|e| e.1.clone()));
        }
      }
    }
  }

  for (k, module) in &modules {
    let module = *module;
    tree_checks(k, module, o, &mut st);

    // own exports
    if let Some(x) = own.get(k) {
      let have: BTreeSet<String> = module.module_symbol().exports().keys().cloned().collect();
      if have != x.names {
        let missing: Vec<_> = x.names.difference(&have).collect();
        let invented: Vec<_> = have.difference(&x.names).collect();
        vio(
          o,
          "C16/exports/own-names-differ",
          format!("{k}: own exports differ from the export statements: missing {missing:?}, invented {invented:?}\n{}", module.text()),
        );
      }
      // resolved set
      let exp = module.exports(&root);
      let got: BTreeSet<String> = exp.resolved.keys().cloned().collect();
      let want = &resolved[k];
      if &got != want {
        let missing: Vec<_> = want.difference(&got).collect();
        let invented: Vec<_> = got.difference(want).collect();
        vio(
          o,
          "C16/exports/resolved-set-differs",
          format!("{k}: resolved export set: missing {missing:?}, invented {invented:?} (own {:?}, stars {:?})", x.names, edges[k]),
        );
      }
      for (name, item) in &exp.resolved {
        let is_own = x.names.contains(name);
        match item {
          ResolvedExportOrReExportAllPath::Export(e) => {
            if !is_own {
              vio(o, "C16/exports/star-name-resolved-as-own", format!("{k}: {name:?} is not an own export but resolved without a star path"));
            } else if e.module.specifier().as_str() != k || Some(e.symbol_id) != module.module_symbol().export(name) {
              vio(o, "C16/exports/own-name-resolves-elsewhere", format!("{k}: own export {name:?} resolves to {} {:?}", e.module.specifier(), e.symbol_id));
            }
          }
          ResolvedExportOrReExportAllPath::ReExportAllPath(_) => {
            st.star_names += 1;
            if is_own {
              vio(
                o,
                "C16/exports/star-shadows-own",
                format!("{k}: own export {name:?} resolved through a star re-export instead of the module's own symbol\n{}", module.text()),
              );
              continue;
            }
            if name == "default" {
              vio(o, "C16/exports/default-through-star", format!("{k}: `default` obtained through a star re-export"));
            }
            // walk the hops
            let mut cur_mod = k.clone();
            let mut cur = item;
            let mut hops = 0;
            loop {
              match cur {
                ResolvedExportOrReExportAllPath::ReExportAllPath(p) => {
                  hops += 1;
                  if p.referrer_module.specifier().as_str() != cur_mod {
                    vio(o, "C16/exports/star-path-broken", format!("{k}: {name:?}: hop {hops} starts at {} instead of {cur_mod}", p.referrer_module.specifier()));
                    break;
                  }
                  if hops > 1 && own.get(&cur_mod).map(|x| x.names.contains(name)).unwrap_or(false) {
                    vio(
                      o,
                      "C16/exports/star-passes-over-own-name",
                      format!("{k}: {name:?}: the star path continues through {cur_mod}, which exports the name itself"),
                    );
                    break;
                  }
                  let next = edges.get(&cur_mod).and_then(|e| e.iter().find(|(s, _)| s == p.specifier)).and_then(|e| e.1.clone());
                  let Some(next) = next else {
                    vio(o, "C16/exports/star-path-broken", format!("{k}: {name:?}: {cur_mod} has no star re-export of {:?}", p.specifier));
                    break;
                  };
                  if p.resolved_module().specifier().as_str() != next {
                    vio(o, "C16/exports/star-path-broken", format!("{k}: {name:?}: hop {hops} lands in {} instead of {next}", p.resolved_module().specifier()));
                    break;
                  }
                  cur_mod = next;
                  cur = &p.next;
                }
                ResolvedExportOrReExportAllPath::Export(e) => {
                  let owner = e.module.specifier().to_string();
                  let owner_sym = modules.get(&owner).and_then(|m| m.module_symbol().export(name));
                  if owner != cur_mod
                    || !own.get(&owner).map(|x| x.names.contains(name)).unwrap_or(false)
                    || owner_sym != Some(e.symbol_id)
                  {
                    vio(
                      o,
                      "C16/exports/star-name-lands-on-non-owner",
                      format!("{k}: {name:?} resolves to {owner} {:?}, which is not that module's own export of the name", e.symbol_id),
                    );
                  }
                  break;
                }
              }
              if hops > modules.len() + 1 {
                vio(o, "C16/exports/star-path-loops", format!("{k}: {name:?}: star path longer than the number of modules"));
                break;
              }
            }
          }
        }
      }
      // precedence was exercised?
      for (_, t) in &edges[k] {
        if let Some(t) = t {
          if let Some(tn) = resolved.get(t) {
            st.own_shadowing_star += tn.iter().filter(|n| *n != "default" && x.names.contains(*n)).count();
          }
        }
      }
    }

    // go to definition from every symbol; dependencies of every declaration
    for symbol in module.symbols() {
      let paths = root.find_definition_paths(module, symbol);
      for p in &paths {
        walk_leaves(p, 0, o, k, &mut st);
      }
      let flat: Vec<DefinitionOrUnresolved<'_>> = root.go_to_definitions_or_unresolveds(module, symbol).collect();
      for d in &flat {
        if let DefinitionOrUnresolved::Definition(def) = d {
          check_definition(def, o, k);
        }
      }
      for decl in symbol.decls() {
        for mode in [ResolveDepsMode::TypesAndExpressions, ResolveDepsMode::TypesOnly] {
          for dep in decl.deps(mode) {
            st.deps += 1;
            for entry in root.resolve_symbol_dep(module, &dep) {
              match entry {
                ResolvedSymbolDepEntry::Path(p) => walk_leaves(&p, 0, o, k, &mut st),
                ResolvedSymbolDepEntry::ImportType(_) => {}
              }
            }
          }
        }
      }
    }
  }
  let _ = HashSet::<u8>::new();
  (
    st.symbols,
    st.star_cycle,
    st.own_shadowing_star,
    st.merged_symbols,
  )
}

pub fn check(case: &Case, _tier: Tier) -> Outcome {
  let mut o = Outcome::default();
  let prog = symgen::build(&case.prog);
  let graph = graph_of(&prog.files);
  // the generator's record agrees with the independent walk (oracle self check)
  for (i, (path, text)) in prog.files.iter().enumerate() {
    if path.ends_with(".json") {
      continue;
    }
    let u = url::Url::parse(&format!("file://{path}")).unwrap();
    let mt = deno_graph::MediaType::from_specifier(&u);
    match own_exports(&u, text, mt) {
      None => {
        o.label("generated-module-does-not-parse");
        if std::env::var("VP_C16_DEBUG").is_ok() {
          eprintln!("does not parse: {path}\n{text}");
        }
        o.discarded = true;
        return o;
      }
      Some(x) => {
        if x.names != prog.rec.own[i] {
          o.label("generator-record-differs-from-walk");
          if std::env::var("VP_C16_DEBUG").is_ok() {
            eprintln!("record differs: {path}\nrecord {:?}\nwalk {:?}\n{text}", prog.rec.own[i], x.names);
          }
        }
      }
    }
  }
  let (symbols, cycle, shadow, merged) = check_graph(&graph, &mut o);
  let r = &prog.rec;
  if cycle {
    o.label("star-cycle");
  }
  if shadow > 0 {
    o.label("own-name-also-offered-by-star");
  }
  if r.merges > 0 {
    o.label("declaration-merging");
  }
  if r.overloads > 0 {
    o.label("overloads");
  }
  if r.expandos > 0 {
    o.label("expando");
  }
  if r.namespaces > 0 {
    o.label("namespaces");
  }
  if r.import_equals > 0 {
    o.label("import-equals");
  }
  if r.namespace_reexports > 0 {
    o.label("namespace-re-export");
  }
  if r.aliases > 0 {
    o.label("export-alias");
  }
  if r.static_members > 0 && r.instance_members > 0 {
    o.label("static-and-instance-members");
  }
  if case.prog.json {
    o.label("json-module");
  }
  let _ = symbols;
  o.nontrivial = (cycle || shadow > 0) && (merged > 0 || r.namespaces > 0);
  o
}

/// Spec corpus layer: the symbols specs and every graph spec.
pub fn extra(_tier: Tier, _seed: u64) -> ExtraReport {
  let mut rep = ExtraReport::default();
  let mut sigs = BTreeSet::new();
  for dir in ["/repo/tests/specs/symbols", "/repo/tests/specs/graph"] {
    for spec in corpus_specs(dir) {
      let files: Vec<(String, String)> = spec.files.iter().map(|(k, v)| (k.clone(), v.clone())).collect();
      crate::runner::set_current_item(&serde_json::json!({"corpus_file": spec.file}));
      let r = std::panic::catch_unwind(std::panic::AssertUnwindSafe(|| corpus_graph(&files)));
      let Ok(Some(graph)) = r else { continue };
      rep.evaluations += 1;
      let mut o = Outcome::default();
      let res = std::panic::catch_unwind(std::panic::AssertUnwindSafe(|| check_graph(&graph, &mut o)));
      let j = serde_json::json!({"corpus_file": spec.file});
      match res {
        Ok((symbols, _, _, _)) => {
          if symbols > 1 {
            rep.nontrivial_hashes.push(crate::runner::hash_json(&j));
            if rep.samples.len() < 2 {
              rep.samples.push(serde_json::json!({"corpus_file": spec.file, "symbols": symbols}));
            }
          }
        }
        Err(e) => {
          let msg = e
            .downcast_ref::<String>()
            .cloned()
            .or_else(|| e.downcast_ref::<&str>().map(|s| s.to_string()))
            .unwrap_or_default();
          o.violate("C16/panic/corpus", format!("panic while analysing: {msg}"));
        }
      }
      for v in o.violations {
        let sig = format!("{}/corpus:{}", v.sig, spec.file.rsplit('/').next().unwrap_or(""));
        if sigs.insert(sig.clone()) {
          rep.violations.push((
            Violation {
              sig,
              msg: format!("{}: {}", spec.file, v.msg),
            },
            j.clone(),
          ));
        }
      }
    }
  }
  rep.notes.push(format!(
    "C16: spec corpus /repo/tests/specs/symbols and /repo/tests/specs/graph: {} graphs analysed",
    rep.evaluations
  ));
  *rep.labels.entry("corpus-graphs".into()).or_insert(0) += rep.evaluations;
  rep
}

fn corpus_graph(files: &[(String, String)]) -> Option<ModuleGraph> {
  let mut served = BTreeMap::new();
  let mut roots = Vec::new();
  for (name, text) in files {
    let url = if name.contains("://") {
      url::Url::parse(name).ok()?
    } else {
      url::Url::parse(&format!("file:///{}", name.trim_start_matches('/'))).ok()?
    };
    let (headers, body) = if let Some(rest) = text.strip_prefix("HEADERS: ") {
      let (h, b) = rest.split_once('\n').unwrap_or((rest, ""));
      let hm: Option<std::collections::HashMap<String, String>> = serde_json::from_str(h).ok();
      (hm, b.to_string())
    } else {
      (None, text.clone())
    };
    if url.scheme() == "file" && matches!(name.as_str(), "mod.ts" | "mod.js" | "mod.tsx" | "mod.d.ts" | "mod.mts") {
      roots.push(url.to_string());
    }
    served.insert(
      url.clone(),
      Served::Module {
        bytes: body.into_bytes().into(),
        headers,
        final_spec: url,
      },
    );
  }
  if roots.is_empty() {
    return None;
  }
  let mut loader = WorldLoader::new(served);
  loader.verify_checksums = false;
  let opts = crate::world::Opts::default();
  let mut graph = ModuleGraph::new(opts.graph_kind());
  build_into(
    &mut graph,
    parse_roots(&roots),
    vec![],
    BuildEnv {
      loader: &loader,
      opts: &opts,
      locker: None,
      npm: None,
      jsr_version_resolver: None,
      prefer_cached: false,
    },
    &Schedule::default(),
    false,
  )
  .ok()?;
  Some(graph)
}
