//! C15 — a walk visits exactly the selected reachable set, each entry once.
//! Oracle: reference model (`refwalk::ref_walk`) over the graph's own data.

use crate::harness::build_simple;
use crate::refwalk::{self, RefWalkOptions, Yield};
use crate::runner::{idx, Outcome, PropSpec, Tier};
use crate::world::{build_case_strategy, BuildCase, GenParams};
use deno_graph::{CheckJsOption, CheckJsResolver, GraphKind, ModuleEntryRef, ModuleSpecifier, WalkOptions};
use proptest::prelude::*;
use serde::{Deserialize, Serialize};
use std::collections::BTreeSet;

#[derive(Clone, Debug, Serialize, Deserialize)]
pub struct Case {
  pub build: BuildCase,
  /// indices choosing walk roots among the graph's specifiers / unknowns
  pub walk_roots: Vec<u16>,
  /// indices choosing modules whose dependencies are skipped
  pub skip: Vec<u16>,
  /// walk a graph of generated registry packages with fast-check modules
  /// instead of the world's graph
  #[serde(default)]
  pub fc: Option<crate::props::c09::Case>,
}

#[derive(Debug)]
struct Custom;
impl CheckJsResolver for Custom {
  fn resolve(&self, specifier: &ModuleSpecifier) -> bool {
    refwalk::custom_check_js(specifier)
  }
}

pub fn spec() -> PropSpec<Case> {
  PropSpec {
    id: "C15",
    strategy: |tier| {
      let p = GenParams {
        max_entries: tier.pick(8, 12),
        max_items: tier.pick(5, 7),
        ..Default::default()
      };
      (
        build_case_strategy(p),
        proptest::collection::vec(any::<u16>(), 1..=3),
        proptest::collection::vec(any::<u16>(), 0..=2),
        proptest::option::weighted(0.25, crate::props::c09::case_strategy(tier)),
      )
        .prop_map(|(build, walk_roots, skip, fc)| Case {
          build,
          fc: fc.map(|mut f| {
            f.impl_import_missing = walk_roots.first().map(|r| r % 2 == 0).unwrap_or(false);
            f
          }),
          walk_roots,
          skip,
        })
        .boxed()
    },
    check,
    cases: |tier| tier.pick(30_000, 600_000),
    rule: "built graphs from generated worlds and (a quarter of the cases) graphs of generated registry packages on which fast check has run; each is walked under all 36 combinations of kind x follow_dynamic x check_js(true/false/custom) x prefer_fast_check_graph, from a drawn root subset (roots, non-roots, redirect sources, unknown specifiers) with a drawn skip set; non-trivial = the graph has >= 3 entries, at least one type resolution and at least one of: dynamic dependency, redirect, module with a types dependency; distinct = distinct case JSON",
    assumptions: &[
      "walk roots are pairwise distinct (callers pass graph.roots or a set)",
      "reference model: engine/src/refwalk.rs, written from WalkOptions rustdoc and the C15 statement; errors compared as multisets of rendered text",
    ],
    crash_is_violation: false,
    extra: None,
    level: "exploration",
  }
}

pub fn check(case: &Case, _tier: Tier) -> Outcome {
  let mut o = Outcome::default();
  let b = &case.build;
  let graph = match &case.fc {
    Some(fc) => {
      let p = crate::props::c09::prepare(fc, None);
      if p.graph.modules().any(|m| m.js().map(|j| j.fast_check_module().is_some()).unwrap_or(false)) {
        o.label("graph-with-fast-check-modules");
      }
      p.graph
    }
    None => build_simple(&b.world, &b.roots, &b.imports, &b.opts).0,
  };
  check_graph(&graph, &case.walk_roots, &case.skip, &mut o, "C15");
  let n_entries = graph.specifiers().count();
  let has_type = graph.modules().any(|m| {
    m.dependencies().values().any(|d| !d.maybe_type.is_none())
  });
  let has_dyn = graph
    .modules()
    .any(|m| m.dependencies().values().any(|d| d.is_dynamic));
  let has_td = graph.modules().any(|m| m.maybe_types_dependency().is_some());
  if has_dyn {
    o.label("has-dynamic-dep");
  }
  if has_td {
    o.label("has-types-dependency");
  }
  if !graph.redirects.is_empty() {
    o.label("has-redirect");
  }
  if !graph.imports.is_empty() {
    o.label("has-configured-imports");
  }
  o.nontrivial = n_entries >= 3
    && has_type
    && (has_dyn || has_td || !graph.redirects.is_empty());
  o
}

pub fn check_graph(
  graph: &deno_graph::ModuleGraph,
  walk_roots: &[u16],
  skip_idx: &[u16],
  o: &mut Outcome,
  id: &str,
) {
  // candidate roots: every slot specifier, every redirect source, two unknowns
  let mut cands: Vec<ModuleSpecifier> = Vec::new();
  for (s, _) in graph.specifiers() {
    if !cands.contains(s) {
      cands.push(s.clone());
    }
  }
  for s in graph.redirects.keys() {
    if !cands.contains(s) {
      cands.push(s.clone());
    }
  }
  cands.push(ModuleSpecifier::parse("file:///not-in-graph.ts").unwrap());
  let mut roots: Vec<ModuleSpecifier> = Vec::new();
  for r in walk_roots {
    let c = cands[idx(*r, cands.len())].clone();
    if !roots.contains(&c) {
      roots.push(c);
    }
  }
  let modules: Vec<String> =
    graph.modules().map(|m| m.specifier().to_string()).collect();
  let mut skip = BTreeSet::new();
  if !modules.is_empty() {
    for s in skip_idx {
      skip.insert(modules[idx(*s, modules.len())].clone());
    }
  }
  let custom = Custom;
  for kind in [GraphKind::All, GraphKind::CodeOnly, GraphKind::TypesOnly] {
    for follow_dynamic in [false, true] {
      for cj in 0..3u8 {
        for prefer_fc in [false, true] {
          let ro = RefWalkOptions {
            kind,
            follow_dynamic,
            check_js: cj,
            prefer_fast_check: prefer_fc,
            skip: skip.clone(),
          };
          let wo = || WalkOptions {
            check_js: match cj {
              0 => CheckJsOption::True,
              1 => CheckJsOption::False,
              _ => CheckJsOption::Custom(&custom),
            },
            follow_dynamic,
            kind,
            prefer_fast_check_graph: prefer_fc,
          };
          let tag = format!(
            "{:?}/dyn={follow_dynamic}/cj={cj}/fc={prefer_fc}",
            kind
          );
          let expected = refwalk::ref_walk(graph, &roots, &ro);
          // from here on a hang is the walk's
          crate::runner::set_phase(crate::runner::PHASE_COVERED);
          // real walk with the skip set
          let mut got: Vec<Yield> = Vec::new();
          let mut it = graph.walk(roots.iter(), wo());
          while let Some((s, e)) = it.next() {
            match e {
              ModuleEntryRef::Module(m) => {
                if m.specifier() != s {
                  o.violate(format!("{id}/entry-mismatch"), format!("{tag}: yielded {s} with module {}", m.specifier()));
                }
                got.push(Yield::Module(s.to_string()));
                if skip.contains(s.as_str()) {
                  it.skip_previous_dependencies();
                }
              }
              ModuleEntryRef::Err(err) => {
                if err.specifier() != s {
                  o.violate(format!("{id}/entry-mismatch"), format!("{tag}: yielded {s} with error for {}", err.specifier()));
                }
                got.push(Yield::Err(s.to_string()))
              }
              ModuleEntryRef::Redirect(to) => {
                if graph.redirects.get(s) != Some(to) {
                  o.violate(format!("{id}/entry-mismatch"), format!("{tag}: yielded redirect {s} -> {to} not in graph.redirects"));
                }
                got.push(Yield::Redirect(s.to_string(), to.to_string()))
              }
            }
            if got.len() > 10_000 {
              o.violate(format!("{id}/walk-does-not-end"), tag.clone());
              return;
            }
          }
          let got_set: BTreeSet<Yield> = got.iter().cloned().collect();
          if got_set.len() != got.len() {
            let mut seen = BTreeSet::new();
            let dup: Vec<_> = got.iter().filter(|y| !seen.insert((*y).clone())).collect();
            o.violate(format!("{id}/yielded-twice"), format!("{tag}: {dup:?}"));
          }
          for y in expected.yielded.difference(&got_set) {
            o.violate(
              format!("{id}/not-visited/{}", ykind(y)),
              format!("{tag}: expected {y:?} (roots {:?})", roots.iter().map(|r| r.as_str()).collect::<Vec<_>>()),
            );
          }
          for y in got_set.difference(&expected.yielded) {
            o.violate(
              format!("{id}/visited-unexpectedly/{}", ykind(y)),
              format!("{tag}: got {y:?} (roots {:?})", roots.iter().map(|r| r.as_str()).collect::<Vec<_>>()),
            );
          }
          // errors (no skip set: errors() drives the iterator itself)
          if skip.is_empty() {
            let mut errs: Vec<String> = graph
              .walk(roots.iter(), wo())
              .errors()
              .map(|e| refwalk::render_graph_error(&e))
              .collect();
            errs.sort();
            if errs != expected.errors {
              let missing: Vec<_> = expected.errors.iter().filter(|e| !errs.contains(e)).collect();
              let extra: Vec<_> = errs.iter().filter(|e| !expected.errors.contains(e)).collect();
              let k = if !missing.is_empty() { "missing" } else if !extra.is_empty() { "extra" } else { "multiplicity" };
              o.violate(
                format!("{id}/errors/{k}"),
                format!("{tag}: missing={missing:?} extra={extra:?}\n got={errs:?}\n expected={:?}", expected.errors),
              );
            }
            let verdict = graph.walk(roots.iter(), wo()).validate().is_ok();
            if verdict != expected.errors.is_empty() {
              o.violate(format!("{id}/validate-verdict"), format!("{tag}: validate ok={verdict} expected errors={:?}", expected.errors));
            }
          }
        }
      }
    }
  }
  crate::runner::set_phase(0);
}

fn ykind(y: &Yield) -> &'static str {
  match y {
    Yield::Module(_) => "module",
    Yield::Err(_) => "error",
    Yield::Redirect(..) => "redirect",
  }
}
