pub mod c17;
