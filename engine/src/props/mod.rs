pub mod c15;
pub mod c17;
pub mod c18;
pub mod c19;
