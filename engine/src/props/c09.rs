//! C09 — fast-check output parses and is closed under reference.
//! Oracle: validity predicates over the re-parsed emitted module (with scope
//! analysis), the emitted export sets of the modules it names, the graph, and
//! the source map.

use crate::fc;
use crate::runner::{ExtraReport, Outcome, PropSpec, Tier, Violation};
use crate::tsgen::{self, Package, RawPackage};
use deno_ast::swc::ast;
use deno_graph::{ModuleGraph, ModuleSpecifier};
use proptest::prelude::*;
use serde::{Deserialize, Serialize};
use std::collections::{BTreeMap, BTreeSet};

#[derive(Clone, Debug, Serialize, Deserialize)]
pub struct Case {
  pub pkgs: Vec<RawPackage>,
  /// analyse as workspace member instead of registry package
  pub workspace: bool,
  /// the entry module of the first package also imports a module that does
  /// not exist, for use inside a function body only (set by C15 alone: the
  /// graph then has an error entry behind an edge fast check prunes)
  #[serde(default)]
  pub impl_import_missing: bool,
}

pub fn case_strategy(tier: Tier) -> BoxedStrategy<Case> {
  (
    proptest::collection::vec(tsgen::raw_package(tier.pick(10, 16)), 1..=2),
    proptest::bool::weighted(0.25),
  )
    .prop_map(|(pkgs, workspace)| Case { pkgs, workspace, impl_import_missing: false })
    .boxed()
}

pub fn spec() -> PropSpec<Case> {
  PropSpec {
    id: "C09",
    strategy: case_strategy,
    check,
    cases: |tier| tier.pick(30_000, 600_000),
    rule: "generated packages (1-2 packages of 1-4 modules, up to 10 / 16 declarations of every kind - class, interface, type alias, enum, function, variable, namespace - exported or private, with random reference chains placed in signature or implementation positions, across modules through named / type-only / namespace imports and import types, named / star / namespace / type re-exports, default export, one or two entrypoints), analysed as registry packages or workspace members; plus every fast-check package of the spec corpus; non-trivial = fast check produced output and the package has a cross-module reference or a signature reference chain of length >= 2; distinct = distinct case JSON",
    assumptions: &[
      "an identifier the resolver leaves unbound in the emitted module is a violation only if that name was bound at module level in the original module",
      "names imported from modules without fast-check output (outside the analysed packages) are not checked against an emitted export set",
      "source-map identifier agreement is checked only where the emitted token starts an identifier that is not a modifier keyword",
    ],
    crash_is_violation: false,
    extra: Some(extra),
    level: "exploration",
  }
}

pub struct Prepared {
  pub pkgs: Vec<Package>,
  pub graph: ModuleGraph,
  pub workspace: bool,
}

pub fn prepare(case: &Case, cache: Option<&dyn deno_graph::fast_check::FastCheckCache>) -> Prepared {
  let mut pkgs: Vec<Package> = case.pkgs.iter().map(tsgen::build).collect();
  if case.impl_import_missing {
    if let Some(t) = pkgs[0].files.get_mut("/mod.ts") {
      t.push_str("import { gone } from \"./gone.ts\";\nfunction usesGone(): void { void gone; }\nvoid usesGone;\n");
    }
  }
  if case.workspace {
    let (mut graph, members) = fc::build_workspace_graph(&pkgs[0]);
    fc::run_fast_check(&mut graph, cache, Some(&members));
    Prepared {
      pkgs: vec![pkgs[0].clone()],
      graph,
      workspace: true,
    }
  } else {
    let refs: Vec<&Package> = pkgs.iter().collect();
    let mut graph = fc::build_jsr_graph(&refs);
    fc::run_fast_check(&mut graph, cache, None);
    Prepared {
      pkgs,
      graph,
      workspace: false,
    }
  }
}

/// (module specifier, original text, emitted text, source map, media type)
pub fn emitted_modules(
  graph: &ModuleGraph,
) -> Vec<(ModuleSpecifier, String, String, String, deno_graph::MediaType)> {
  let mut out = Vec::new();
  for m in graph.modules() {
    if let Some(js) = m.js() {
      if let Some(fcm) = js.fast_check_module() {
        out.push((
          js.specifier.clone(),
          js.source.text.to_string(),
          fcm.source.to_string(),
          fcm.source_map.to_string(),
          js.media_type,
        ));
      }
    }
  }
  out
}

/// Export names of every emitted module that are *grounded*: own
/// declarations and `* as ns`, names re-exported by name from a module where
/// the original name is grounded, and the non-default grounded names of star
/// re-exports - the least fixpoint, so a name that only refers back to itself
/// through a cycle of re-exports is not an export. A module without emitted
/// counterpart offers the wildcard `*` (unknown names, be permissive).
pub fn grounded_exports(
  emitted: &BTreeMap<ModuleSpecifier, fc::ExportSet>,
  graph: &ModuleGraph,
) -> BTreeMap<ModuleSpecifier, BTreeSet<String>> {
  let target_of = |s: &str, spec: &ModuleSpecifier| -> Option<ModuleSpecifier> {
    let t = deno_graph::resolve_import(s, spec).ok()?;
    Some(graph.resolve(&t).clone())
  };
  let mut g: BTreeMap<ModuleSpecifier, BTreeSet<String>> = BTreeMap::new();
  for (spec, set) in emitted {
    let indirect: BTreeSet<&String> = set.indirect.iter().map(|x| &x.0).collect();
    g.insert(
      spec.clone(),
      set.names.iter().filter(|n| !indirect.contains(n)).cloned().collect(),
    );
  }
  loop {
    let mut changed = false;
    for (spec, set) in emitted {
      let mut add: Vec<String> = Vec::new();
      for (name, orig, src) in &set.indirect {
        let ok = match target_of(src, spec) {
          Some(t) => match g.get(&t) {
            Some(names) => names.contains(orig) || names.contains("*"),
            None => true,
          },
          None => true,
        };
        if ok {
          add.push(name.clone());
        }
      }
      for s in &set.stars {
        match target_of(s, spec).and_then(|t| g.get(&t).cloned()) {
          Some(names) => add.extend(names.into_iter().filter(|n| n != "default")),
          None => add.push("*".to_string()),
        }
      }
      let mine = g.get_mut(spec).unwrap();
      for a in add {
        if mine.insert(a) {
          changed = true;
        }
      }
    }
    if !changed {
      return g;
    }
  }
}

const MODIFIERS: &[&str] = &[
  "export", "declare", "default", "const", "let", "var", "function", "class", "interface",
  "type", "enum", "namespace", "module", "import", "from", "as", "static", "private",
  "protected", "public", "readonly", "abstract", "async", "get", "set", "extends",
  "implements", "typeof", "keyof", "new", "return", "never", "any", "unknown", "void",
  "number", "string", "boolean", "override", "accessor", "in", "out", "is", "infer",
  "unique", "symbol", "object", "bigint", "null", "undefined", "true", "false", "this",
  "super", "satisfies", "asserts", "global", "require",
];

pub fn check_module_closure(
  graph: &ModuleGraph,
  spec: &ModuleSpecifier,
  original: &str,
  emitted_text: &str,
  source_map: &str,
  mt: deno_graph::MediaType,
  emitted_sets: &BTreeMap<ModuleSpecifier, fc::ExportSet>,
  grounded: &BTreeMap<ModuleSpecifier, BTreeSet<String>>,
  o: &mut Outcome,
  id: &str,
) {
  // (a) parses as the same kind of module
  let parsed = match fc::parse(spec, emitted_text, mt) {
    Ok(p) => p,
    Err(e) => {
      o.violate(
        format!("{id}/emitted-module-does-not-parse"),
        format!("{spec}: {e}\n{emitted_text}"),
      );
      return;
    }
  };
  let Ok(orig) = fc::parse(spec, original, mt) else { return };
  // the parser may recover from a syntax error and still hand back a tree:
  // "parses" means without diagnostics (when the original had none)
  if orig.diagnostics().is_empty() && !parsed.diagnostics().is_empty() {
    o.violate(
      format!("{id}/emitted-module-parses-with-diagnostics"),
      format!(
        "{spec}: {}\n{emitted_text}",
        parsed.diagnostics().iter().map(|d| d.to_string()).collect::<Vec<_>>().join("; ")
      ),
    );
  }
  // (b) closed under reference
  let bound_in_original = fc::top_level_bindings(&orig);
  let (unresolved, in_ambient_private) = fc::unresolved_idents_split(&parsed);
  for name in unresolved.intersection(&bound_in_original) {
    o.violate(
      format!("{id}/dangling-reference"),
      format!("{spec}: `{name}` is bound at module level in the original but unbound in the emitted module:\n{emitted_text}"),
    );
  }
  for name in in_ambient_private.intersection(&bound_in_original) {
    if !unresolved.contains(name) {
      o.violate(
        format!("{id}/dangling-reference/private-member-of-ambient-class"),
        format!("{spec}: `{name}` is only referenced from a private member of a `declare class`, which the transform passes through although the declaration of `{name}` was removed:\n{emitted_text}"),
      );
    }
  }
  // (c) + (d) imports and re-exports
  let deno_ast::ProgramRef::Module(module) = parsed.program_ref() else { return };
  for item in &module.body {
    let ast::ModuleItem::ModuleDecl(md) = item else { continue };
    let (src, names): (String, Vec<String>) = match md {
      ast::ModuleDecl::Import(i) => (
        i.src.value.to_string_lossy().to_string(),
        i.specifiers
          .iter()
          .filter_map(|s| match s {
            ast::ImportSpecifier::Named(n) => Some(match &n.imported {
              Some(ast::ModuleExportName::Ident(i)) => i.sym.to_string(),
              Some(ast::ModuleExportName::Str(s)) => s.value.to_string_lossy().to_string(),
              None => n.local.sym.to_string(),
            }),
            ast::ImportSpecifier::Default(_) => Some("default".to_string()),
            ast::ImportSpecifier::Namespace(_) => None,
          })
          .collect(),
      ),
      ast::ModuleDecl::ExportNamed(n) => match &n.src {
        Some(src) => (
          src.value.to_string_lossy().to_string(),
          n.specifiers
            .iter()
            .filter_map(|s| match s {
              ast::ExportSpecifier::Named(n) => Some(match &n.orig {
                ast::ModuleExportName::Ident(i) => i.sym.to_string(),
                ast::ModuleExportName::Str(s) => s.value.to_string_lossy().to_string(),
              }),
              _ => None,
            })
            .collect(),
        ),
        None => continue,
      },
      ast::ModuleDecl::ExportAll(a) => (a.src.value.to_string_lossy().to_string(), vec![]),
      _ => continue,
    };
    let relative = src.starts_with("./") || src.starts_with("../") || src.starts_with('/');
    let Ok(target) = deno_graph::resolve_import(&src, spec) else {
      if relative {
        o.violate(format!("{id}/specifier-does-not-resolve"), format!("{spec}: {src}"));
      }
      continue;
    };
    let final_target = graph.resolve(&target).clone();
    if relative && graph.get(&final_target).is_none() {
      o.violate(
        format!("{id}/relative-specifier-not-in-graph"),
        format!("{spec}: {src:?} -> {final_target} is not a module of the graph"),
      );
      continue;
    }
    if emitted_sets.contains_key(&final_target) {
      let exported = grounded.get(&final_target).cloned().unwrap_or_default();
      if exported.contains("*") {
        continue;
      }
      for n in names {
        if !exported.contains(&n) {
          o.violate(
            format!("{id}/imported-name-not-exported-by-emitted-target"),
            format!("{spec} takes `{n}` from {src:?}, but the emitted {final_target} exports {exported:?}"),
          );
        }
      }
    }
  }
  // (e) source map
  check_source_map(spec, original, emitted_text, source_map, o, id);
}

fn line_starts(text: &str) -> Vec<usize> {
  let mut v = vec![0];
  for (i, b) in text.bytes().enumerate() {
    if b == b'\n' {
      v.push(i + 1);
    }
  }
  v
}

/// the slice of `line` starting at UTF-16 column `col` (source maps count
/// UTF-16 code units)
fn at_col<'a>(text: &'a str, starts: &[usize], line: usize, col: usize) -> Option<&'a str> {
  let start = *starts.get(line)?;
  let end = starts.get(line + 1).copied().unwrap_or(text.len());
  let l = &text[start..end];
  let mut units = 0;
  for (i, c) in l.char_indices() {
    if units == col {
      // the rest of the text from that position
      return Some(&text[start + i..]);
    }
    units += c.len_utf16();
  }
  if units == col {
    Some("")
  } else {
    None
  }
}

fn ident_at(s: &str) -> Option<&str> {
  let mut end = 0;
  for (i, c) in s.char_indices() {
    let ok = if i == 0 {
      c.is_alphabetic() || c == '_' || c == '$'
    } else {
      c.is_alphanumeric() || c == '_' || c == '$'
    };
    if !ok {
      break;
    }
    end = i + c.len_utf8();
  }
  if end == 0 {
    None
  } else {
    Some(&s[..end])
  }
}

/// Skips whitespace, decorators and modifier keywords at the start of `s`.
fn skip_modifiers(mut s: &str) -> &str {
  loop {
    let t = s.trim_start();
    if let Some(rest) = t.strip_prefix('@') {
      // decorator: dotted name with an optional argument list
      let mut end = 0;
      for (i, c) in rest.char_indices() {
        if c.is_alphanumeric() || c == '_' || c == '$' || c == '.' {
          end = i + c.len_utf8();
        } else {
          break;
        }
      }
      let mut rest = &rest[end..];
      if rest.starts_with('(') {
        let mut depth = 0;
        let mut close = None;
        for (i, c) in rest.char_indices() {
          match c {
            '(' => depth += 1,
            ')' => {
              depth -= 1;
              if depth == 0 {
                close = Some(i + 1);
                break;
              }
            }
            _ => {}
          }
        }
        match close {
          Some(c) => rest = &rest[c..],
          None => return t,
        }
      }
      s = rest;
      continue;
    }
    match ident_at(t) {
      Some(w) if MODIFIERS.contains(&w) && t.len() > w.len() => {
        // a modifier only if another identifier follows
        let after = t[w.len()..].trim_start();
        if ident_at(after).is_some() || after.starts_with('@') || after.starts_with('#') || after.starts_with('[') {
          s = &t[w.len()..];
          continue;
        }
        return t;
      }
      _ => return t,
    }
  }
}

pub fn check_source_map(
  spec: &ModuleSpecifier,
  original: &str,
  emitted: &str,
  source_map: &str,
  o: &mut Outcome,
  id: &str,
) {
  if emitted.is_empty() && source_map.is_empty() {
    return;
  }
  let sm = match deno_ast::swc::sourcemap::SourceMap::from_slice(source_map.as_bytes()) {
    Ok(sm) => sm,
    Err(e) => {
      o.violate(format!("{id}/source-map-malformed"), format!("{spec}: {e}\n{source_map}"));
      return;
    }
  };
  let es = line_starts(emitted);
  let os = line_starts(original);
  for t in sm.tokens() {
    let dst = at_col(emitted, &es, t.get_dst_line() as usize, t.get_dst_col() as usize);
    let src = at_col(original, &os, t.get_src_line() as usize, t.get_src_col() as usize);
    let (Some(dst), Some(src)) = (dst, src) else {
      o.violate(
        format!(
          "{id}/source-map-position-outside-text/{}",
          if dst.is_none() { "emitted" } else { "original" }
        ),
        format!(
          "{spec}: token {}:{} -> {}:{}",
          t.get_dst_line(),
          t.get_dst_col(),
          t.get_src_line(),
          t.get_src_col()
        ),
      );
      continue;
    };
    if let Some(di) = ident_at(dst) {
      if MODIFIERS.contains(&di) {
        continue;
      }
      // the token must start the same identifier, possibly after modifier
      // keywords and decorators that the transform dropped
      let src = skip_modifiers(src)
        .trim_start_matches(|c: char| matches!(c, '[' | '"' | '\'' | '`' | '#'));
      match ident_at(src) {
        Some(si) if si == di => {}
        other => {
          // only flag when the emitted identifier exists in the original at
          // all (synthetic names have no origin)
          if original.contains(di) {
            o.violate(
              format!("{id}/source-map-identifier-mismatch"),
              format!(
                "{spec}: emitted `{di}` at {}:{} maps to {}:{} where the original has {:?}",
                t.get_dst_line(),
                t.get_dst_col(),
                t.get_src_line(),
                t.get_src_col(),
                other.unwrap_or(&src[..src.len().min(12)])
              ),
            );
          }
        }
      }
    }
  }
}

/// Packages with a by-name re-export that sits inside a cycle of re-exports
/// (excluded from generation, kept as one recorded case): violations found
/// there carry their own signature.
pub fn mark_named_cycle(pkgs: &[Package], o: &mut Outcome) {
  if pkgs.iter().any(|k| k.rec.named_reexport_in_cycle) {
    for v in o.violations.iter_mut() {
      v.sig = format!("{}/named-re-export-inside-a-re-export-cycle", v.sig);
    }
  }
}

pub fn check_graph(graph: &ModuleGraph, o: &mut Outcome, id: &str) -> usize {
  let mods = emitted_modules(graph);
  let mut sets: BTreeMap<ModuleSpecifier, fc::ExportSet> = BTreeMap::new();
  for (spec, _, emitted, _, mt) in &mods {
    if let Ok(p) = fc::parse(spec, emitted, *mt) {
      sets.insert(spec.clone(), fc::export_set(&p));
    }
  }
  let grounded = grounded_exports(&sets, graph);
  for (spec, original, emitted, sm, mt) in &mods {
    check_module_closure(graph, spec, original, emitted, sm, *mt, &sets, &grounded, o, id);
  }
  mods.len()
}

pub fn check(case: &Case, _tier: Tier) -> Outcome {
  let mut o = Outcome::default();
  let p = prepare(case, None);
  if let Some(e) = p.graph.module_errors().next() {
    o.discarded = true;
    o.label(format!("discard-graph-error: {}", e.to_string().lines().next().unwrap_or("")));
    return o;
  }
  let n = check_graph(&p.graph, &mut o, "C09");
  mark_named_cycle(&p.pkgs, &mut o);
  let cross = p.pkgs.iter().map(|k| k.rec.cross_module_refs).sum::<usize>();
  let chain = p.pkgs.iter().map(|k| k.rec.max_chain).max().unwrap_or(0);
  if n > 0 {
    o.label("output-produced");
    for k in &p.pkgs {
      for sh in &k.rec.shapes {
        o.label(format!("shape:{sh}"));
      }
    }
  } else {
    o.label("diagnostics-only");
  }
  if cross > 0 {
    o.label("cross-module-reference");
  }
  if chain >= 2 {
    o.label("reference-chain>=2");
  }
  if p.workspace {
    o.label("workspace-member");
  }
  o.nontrivial = n > 0 && (cross > 0 || chain >= 2);
  o
}

// ---------------------------------------------------------------------------
// corpus layer

pub struct CorpusSpec {
  pub file: String,
  pub files: BTreeMap<String, String>,
  pub workspace_fast_check: bool,
}

pub fn corpus_specs(dir: &str) -> Vec<CorpusSpec> {
  let mut out = Vec::new();
  let mut stack = vec![std::path::PathBuf::from(dir)];
  while let Some(d) = stack.pop() {
    let Ok(rd) = std::fs::read_dir(&d) else { continue };
    let mut entries: Vec<_> = rd.filter_map(|e| e.ok()).map(|e| e.path()).collect();
    entries.sort();
    for p in entries {
      if p.is_dir() {
        stack.push(p);
        continue;
      }
      if p.extension().and_then(|s| s.to_str()) != Some("txt") {
        continue;
      }
      if let Some(only) = crate::runner::only_corpus_file() {
        if only != p.display().to_string() {
          continue;
        }
      }
      let Ok(text) = std::fs::read_to_string(&p) else { continue };
      let mut files = BTreeMap::new();
      let mut current: Option<(String, String)> = None;
      let mut workspace_fast_check = false;
      let mut in_options = false;
      for line in text.split_inclusive('\n') {
        if line.starts_with("~~") {
          in_options = !in_options || !line.trim_end().ends_with("~~");
          if line.contains("workspaceFastCheck\": true") || line.contains("workspaceFastCheck\":true") {
            workspace_fast_check = true;
          }
          in_options = false;
          continue;
        }
        if let Some(rest) = line.strip_prefix("# ") {
          if let Some((n, s)) = current.take() {
            files.insert(n, s);
          }
          let name = rest.trim();
          if name == "output" {
            break;
          }
          current = Some((name.to_string(), String::new()));
        } else if let Some((_, s)) = current.as_mut() {
          s.push_str(line);
        }
      }
      if let Some((n, s)) = current.take() {
        files.insert(n, s);
      }
      let _ = in_options;
      out.push(CorpusSpec {
        file: p.display().to_string(),
        files,
        workspace_fast_check,
      });
    }
  }
  out
}

/// Builds a corpus spec's graph (registry files served verbatim) and runs
/// fast check on it.
pub fn corpus_graph(spec: &CorpusSpec) -> Option<ModuleGraph> {
  use crate::harness::{build_into, parse_roots, BuildEnv, Schedule, Served, WorldLoader};
  let mut served = BTreeMap::new();
  let mut roots = Vec::new();
  for (name, text) in &spec.files {
    let url = if name.contains("://") {
      url::Url::parse(name).ok()?
    } else {
      url::Url::parse(&format!("file:///{}", name.trim_start_matches('/'))).ok()?
    };
    let (headers, body) = if let Some(rest) = text.strip_prefix("HEADERS: ") {
      let (h, b) = rest.split_once('\n').unwrap_or((rest, ""));
      let hm: Option<std::collections::HashMap<String, String>> = serde_json::from_str(h).ok();
      (hm, b.to_string())
    } else {
      (None, text.clone())
    };
    if url.scheme() == "file" && (name == "mod.ts" || name == "mod.js" || name == "mod.tsx") {
      roots.push(url.to_string());
    }
    served.insert(
      url.clone(),
      Served::Module {
        bytes: body.into_bytes().into(),
        headers,
        final_spec: url,
      },
    );
  }
  if roots.is_empty() {
    return None;
  }
  // like the repository's spec runner: fill the `manifest` of every version
  // manifest with the files the spec provides
  let metas: Vec<url::Url> = served
    .keys()
    .filter(|u| u.as_str().ends_with("_meta.json"))
    .cloned()
    .collect();
  for meta in metas {
    let Some(Served::Module { bytes, .. }) = served.get(&meta).cloned() else { continue };
    let Ok(mut v) = serde_json::from_slice::<serde_json::Value>(&bytes) else { continue };
    let dir = meta.as_str().trim_end_matches("_meta.json").to_string() + "/";
    let mut manifest = serde_json::Map::new();
    for (u, sv) in &served {
      if let (Some(path), Served::Module { bytes, .. }) = (u.as_str().strip_prefix(&dir), sv) {
        manifest.insert(
          format!("/{path}"),
          serde_json::json!({"size": bytes.len(), "checksum": format!("sha256-{}", crate::registry::sha256_hex(bytes))}),
        );
      }
    }
    if let Some(obj) = v.as_object_mut() {
      if !obj.contains_key("manifest") {
        obj.insert("manifest".into(), serde_json::Value::Object(manifest));
      }
    }
    served.insert(
      meta.clone(),
      Served::Module {
        bytes: serde_json::to_vec(&v).unwrap().into(),
        headers: None,
        final_spec: meta,
      },
    );
  }
  let mut loader = WorldLoader::new(served);
  loader.verify_checksums = false;
  let opts = crate::world::Opts::default();
  let mut graph = ModuleGraph::new(opts.graph_kind());
  build_into(
    &mut graph,
    parse_roots(&roots),
    vec![],
    BuildEnv {
      loader: &loader,
      opts: &opts,
      locker: None,
      npm: None,
      jsr_version_resolver: None,
      prefer_cached: false,
    },
    &Schedule::default(),
    false,
  )
  .ok()?;
  if graph.module_errors().next().is_some() {
    return None;
  }
  fc::run_fast_check(&mut graph, None, None);
  Some(graph)
}

pub fn extra(_tier: Tier, _seed: u64) -> ExtraReport {
  corpus_layer("C09", |g, o| {
    check_graph(g, o, "C09");
  })
}

pub fn corpus_layer(id: &str, f: impl Fn(&ModuleGraph, &mut Outcome)) -> ExtraReport {
  let mut rep = ExtraReport::default();
  let mut sigs = BTreeSet::new();
  let mut with_output = 0u64;
  for spec in corpus_specs("/repo/tests/specs/graph/fast_check") {
    crate::runner::set_current_item(&serde_json::json!({"corpus_file": spec.file}));
    let r = std::panic::catch_unwind(std::panic::AssertUnwindSafe(|| corpus_graph(&spec)));
    let Ok(Some(graph)) = r else { continue };
    let n = emitted_modules(&graph).len();
    rep.evaluations += 1;
    let mut o = Outcome::default();
    f(&graph, &mut o);
    let j = serde_json::json!({"corpus_file": spec.file, "emitted_modules": n});
    if n > 0 {
      with_output += 1;
      rep.nontrivial_hashes.push(crate::runner::hash_json(&j));
      if rep.samples.is_empty() {
        rep.samples.push(j.clone());
      }
    }
    for v in o.violations {
      let sig = if v.sig.ends_with("private-member-of-ambient-class") {
        v.sig.clone()
      } else {
        format!("{}/corpus:{}", v.sig, spec.file.rsplit('/').next().unwrap_or(""))
      };
      if sigs.insert(sig.clone()) {
        rep.violations.push((
          Violation {
            sig,
            msg: format!("{}: {}", spec.file, v.msg),
          },
          j.clone(),
        ));
      }
    }
  }
  rep.notes.push(format!(
    "{id}: spec corpus /repo/tests/specs/graph/fast_check: {} packages built, {with_output} with emitted modules",
    rep.evaluations
  ));
  *rep.labels.entry("corpus-packages".into()).or_insert(0) += rep.evaluations;
  rep
}
