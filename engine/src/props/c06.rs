//! C06 — JSR requirements resolve to the specified version.
//! Oracle: reference model `select_version` (the four-tier rule literally as
//! stated), exhaustively over a bounded domain at function level and as a
//! left fold over the import order at graph level.

use crate::harness::{build_into, parse_roots, BuildEnv, Schedule, WorldLoader};
use crate::registry::{self, Exports, RegFile, RegPackage, RegVersion, Registry, REQS, VERSIONS};
use crate::runner::{ExtraReport, Outcome, PropSpec, Tier, Violation};
use crate::world::{Entry, Item, Lang, Opts, World};
use deno_graph::packages::{
  JsrPackageInfo, JsrPackageInfoVersion, JsrVersionResolver,
  NewestDependencyDate, NewestDependencyDateOptions,
};
use deno_graph::{FillFromLockfileOptions, ModuleGraph};
use deno_semver::jsr::JsrDepPackageReq;
use deno_semver::package::PackageReq;
use deno_semver::{Version, VersionReq};
use proptest::prelude::*;
use serde::{Deserialize, Serialize};
use std::collections::{BTreeMap, BTreeSet, HashMap, HashSet};

pub const PKG: &str = "@s/a";
pub const CUTOFF_DAY: i32 = 100;
pub const UNLISTED: &str = "1.0.9";

#[derive(Clone, Debug, Serialize, Deserialize, PartialEq, Eq)]
pub struct Ver {
  /// index into VERSIONS
  pub v: u8,
  pub yanked: bool,
  /// 0 no createdAt, 1 before the cut-off, 2 after, 3 exactly at the cut-off
  pub date: u8,
}

#[derive(Clone, Debug, Serialize, Deserialize)]
pub struct Case {
  pub versions: Vec<Ver>,
  pub cutoff: bool,
  /// 0 none, 1 this package by name, 2 by prefix `@s/`, 3 another package,
  /// 4 a *name* that is a string prefix of this package's name (no effect),
  /// 5 a *prefix* that is longer than this package's name (no effect)
  pub exclude: u8,
  /// function level: already selected versions (index into VERSIONS, 255 = unlisted 1.0.9)
  pub existing: Vec<u8>,
  pub cached: Vec<u8>,
  pub req: u8,
  /// graph level: (req index, dynamic import)
  pub imports: Vec<(u8, bool)>,
  /// graph level: lockfile seeds (req index, version index or 255)
  pub seeds: Vec<(u8, u8)>,
  pub prefer_cached: bool,
}

fn ver_strategy() -> impl Strategy<Value = Ver> {
  (0..VERSIONS.len() as u8, proptest::bool::weighted(0.25), 0..4u8)
    .prop_map(|(v, yanked, date)| Ver { v, yanked, date })
}

pub fn spec() -> PropSpec<Case> {
  PropSpec {
    id: "C06",
    strategy: |_tier| {
      (
        proptest::collection::vec(ver_strategy(), 0..=6),
        any::<bool>(),
        0..6u8,
        proptest::collection::vec(prop_oneof![4 => 0..VERSIONS.len() as u8, 1 => Just(255u8)], 0..=3),
        proptest::collection::vec(0..VERSIONS.len() as u8, 0..=3),
        0..REQS.len() as u8,
        proptest::collection::vec((0..(REQS.len() as u8 + 1), proptest::bool::weighted(0.3)), 1..=4),
        proptest::collection::vec((0..REQS.len() as u8, prop_oneof![4 => 0..VERSIONS.len() as u8, 1 => Just(255u8)]), 0..=2),
        proptest::bool::weighted(0.3),
      )
        .prop_map(
          |(mut versions, cutoff, exclude, existing, cached, req, mut imports, seeds, prefer_cached)| {
            let mut seen = BTreeSet::new();
            versions.retain(|v| seen.insert(v.v));
            let mut seen = BTreeSet::new();
            imports.retain(|(r, _)| seen.insert(*r));
            Case {
              versions,
              cutoff,
              exclude,
              existing,
              cached,
              req,
              imports,
              seeds,
              prefer_cached,
            }
          },
        )
        .boxed()
    },
    check,
    cases: |tier| tier.pick(40_000, 1_000_000),
    rule: "function level: version sets from a pool of 8 (prerelease and 0.x included) with yanked flags and creation dates (none / before / after / exactly at the cut-off), cut-off on or off, exclusion by name / prefix / other package, already selected versions (incl. one the registry does not list), cached versions, 15 requirements - exhaustively for all sets of <= 2 (thorough 3) versions, sampled beyond; graph level: one root importing 1-4 jsr: requirements (static and dynamic, one version tag) against a generated registry with lockfile seeds, cut-off, exclusions, prefer-cached and a cache image, compared with the left fold of the reference over the import order; non-trivial = the answer differs from 'highest listed version matching the requirement'; distinct = distinct case JSON",
    assumptions: &[
      "deno_semver (version parsing, ordering, VersionReq::matches) is trusted by both sides",
      "graph level: every requirement text appears once in the root module; static imports resolve in source order, then dynamic ones; a requirement equal to one resolved earlier in the same build (same package and version range, e.g. `1` and `1.x`) is not resolved again but lands on the version selected the first time, so that the package table and the redirects name one version per requirement",
      "the loader answers registry metadata identically for every cache setting",
    ],
    crash_is_violation: false,
    extra: Some(extra),
    level: "exploration",
  }
}

// ---------------------------------------------------------------------------
// reference

#[derive(Debug, Clone, PartialEq, Eq)]
pub enum Sel {
  Found { version: String, yanked: bool },
  NotFound { with_date: bool },
}

pub struct Listed {
  pub version: Version,
  pub yanked: bool,
  /// 0 none, 1 before, 2 after, 3 at
  pub date: u8,
}

/// The selection rule of C06, literally as stated.
pub fn select_version(
  req: &VersionReq,
  listed: &[Listed],
  existing: &[Version],
  cached: Option<&[Version]>,
  cutoff_applies: bool,
) -> Sel {
  let date_ok = |l: &Listed| !cutoff_applies || l.date == 0 || l.date == 1;
  // 1. highest already selected version satisfying the requirement
  if let Some(v) = existing.iter().filter(|v| req.matches(v)).max() {
    let yanked = listed
      .iter()
      .find(|l| &l.version == v)
      .map(|l| l.yanked)
      .unwrap_or(false);
    return Sel::Found {
      version: v.to_string(),
      yanked,
    };
  }
  // 1.5 cached manifests
  if let Some(cached) = cached {
    if !cached.is_empty() {
      if let Some(l) = listed
        .iter()
        .filter(|l| !l.yanked && cached.contains(&l.version) && req.matches(&l.version) && date_ok(l))
        .max_by(|a, b| a.version.cmp(&b.version))
      {
        return Sel::Found {
          version: l.version.to_string(),
          yanked: false,
        };
      }
    }
  }
  // 2. highest non-yanked registry version not newer than the cut-off
  if let Some(l) = listed
    .iter()
    .filter(|l| !l.yanked && req.matches(&l.version) && date_ok(l))
    .max_by(|a, b| a.version.cmp(&b.version))
  {
    return Sel::Found {
      version: l.version.to_string(),
      yanked: false,
    };
  }
  // 3. highest yanked such version
  if let Some(l) = listed
    .iter()
    .filter(|l| l.yanked && req.matches(&l.version) && date_ok(l))
    .max_by(|a, b| a.version.cmp(&b.version))
  {
    return Sel::Found {
      version: l.version.to_string(),
      yanked: true,
    };
  }
  Sel::NotFound {
    with_date: cutoff_applies && listed.iter().any(|l| req.matches(&l.version)),
  }
}

// ---------------------------------------------------------------------------
// function level

fn day_of(date: u8) -> Option<i32> {
  match date {
    0 => None,
    1 => Some(CUTOFF_DAY - 10),
    2 => Some(CUTOFF_DAY + 10),
    _ => Some(CUTOFF_DAY),
  }
}

fn options(cutoff: bool, exclude: u8) -> NewestDependencyDateOptions {
  let mut o = NewestDependencyDateOptions::default();
  if cutoff {
    o.date = Some(NewestDependencyDate(registry::day_to_datetime(CUTOFF_DAY)));
  }
  match exclude {
    1 => {
      o.exclude_jsr_pkgs.insert(PKG.into());
    }
    2 => o.exclude_jsr_pkg_prefixes.push("@s/".into()),
    3 => {
      o.exclude_jsr_pkgs.insert("@s/other".into());
    }
    4 => {
      o.exclude_jsr_pkgs.insert("@s/".into());
      o.exclude_jsr_pkgs.insert("@s".into());
    }
    5 => o.exclude_jsr_pkg_prefixes.push("@s/ab".into()),
    _ => {}
  }
  o
}

fn cutoff_applies(cutoff: bool, exclude: u8) -> bool {
  cutoff && !matches!(exclude, 1 | 2)
}

fn version_of(i: u8) -> Version {
  let s = if i == 255 { UNLISTED } else { VERSIONS[i as usize % VERSIONS.len()] };
  Version::parse_standard(s).unwrap()
}

fn fn_level(case: &Case, o: &mut Outcome) -> bool {
  let listed: Vec<Listed> = case
    .versions
    .iter()
    .map(|v| Listed {
      version: version_of(v.v),
      yanked: v.yanked,
      date: v.date,
    })
    .collect();
  let existing: Vec<Version> = case.existing.iter().map(|i| version_of(*i)).collect();
  let cached: Vec<Version> = case
    .cached
    .iter()
    .map(|i| version_of(*i))
    .filter(|v| listed.iter().any(|l| &l.version == v))
    .collect();
  let req_text = REQS[case.req as usize % REQS.len()];
  fn_eval(&listed, &existing, &cached, req_text, case.cutoff, case.exclude, o)
}

/// returns whether the case is non-trivial
#[allow(clippy::too_many_arguments)]
fn fn_eval(
  listed: &[Listed],
  existing: &[Version],
  cached: &[Version],
  req_text: &str,
  cutoff: bool,
  exclude: u8,
  o: &mut Outcome,
) -> bool {
  let preq = PackageReq::from_str(&format!("{PKG}@{req_text}")).unwrap();
  let info = JsrPackageInfo {
    versions: listed
      .iter()
      .map(|l| {
        (
          l.version.clone(),
          JsrPackageInfoVersion {
            created_at: day_of(l.date).map(registry::day_to_datetime),
            yanked: l.yanked,
          },
        )
      })
      .collect::<HashMap<_, _>>(),
    latest: None,
  };
  let resolver = JsrVersionResolver {
    newest_dependency_date_options: options(cutoff, exclude),
  };
  let cached_set: HashSet<Version> = cached.iter().cloned().collect();
  let pr = resolver.get_for_package(&PKG.into(), &info);
  let got = match pr.resolve_version(&preq, existing.iter(), &cached_set) {
    Ok(r) => Sel::Found {
      version: r.version.to_string(),
      yanked: r.is_yanked,
    },
    Err(e) => Sel::NotFound {
      with_date: e.newest_dependency_date.is_some(),
    },
  };
  let applies = cutoff_applies(cutoff, exclude);
  let expected = select_version(
    &preq.version_req,
    listed,
    existing,
    Some(cached),
    applies,
  );
  if got != expected {
    let tier = match (&got, &expected) {
      (Sel::Found { version: a, .. }, Sel::Found { version: b, .. }) if a != b => "version",
      (Sel::Found { .. }, Sel::Found { .. }) => "yanked-flag",
      (Sel::NotFound { .. }, Sel::NotFound { .. }) => "date-in-error",
      (Sel::Found { .. }, Sel::NotFound { .. }) => "found-but-none-qualifies",
      _ => "not-found-but-one-qualifies",
    };
    o.violate(
      format!("C06/fn/{tier}"),
      format!(
        "req {req_text} listed {:?} existing {:?} cached {:?} cutoff_applies {applies}: got {got:?}, expected {expected:?}",
        listed.iter().map(|l| format!("{}{}{}", l.version, if l.yanked { "(yanked)" } else { "" }, ["", "<", ">", "="][l.date as usize])).collect::<Vec<_>>(),
        existing.iter().map(|v| v.to_string()).collect::<Vec<_>>(),
        cached.iter().map(|v| v.to_string()).collect::<Vec<_>>(),
      ),
    );
  }
  // non-trivial: differs from "highest listed matching version"
  let naive = listed
    .iter()
    .filter(|l| preq.version_req.matches(&l.version))
    .map(|l| l.version.clone())
    .max();
  match (&expected, naive) {
    (Sel::Found { version, .. }, Some(n)) => *version != n.to_string(),
    (Sel::NotFound { .. }, Some(_)) => true,
    (Sel::Found { .. }, None) => true,
    _ => false,
  }
}

// ---------------------------------------------------------------------------
// graph level

pub fn registry_of(case: &Case) -> Registry {
  let mut files = BTreeMap::new();
  files.insert(
    "/mod.ts".to_string(),
    RegFile {
      lang: Lang::Ts,
      items: vec![Item::Filler],
      text: None,
    },
  );
  Registry {
    packages: vec![RegPackage {
      name: PKG.to_string(),
      versions: case
        .versions
        .iter()
        .map(|v| RegVersion {
          version: VERSIONS[v.v as usize % VERSIONS.len()].to_string(),
          yanked: v.yanked,
          created_day: day_of(v.date),
          exports: Exports::Single("./mod.ts".into()),
          files: files.clone(),
          module_graph: 0,
          lockfile_checksum: false,
        })
        .collect(),
    }],
  }
}

fn req_text_of(i: u8) -> Option<&'static str> {
  if (i as usize) < REQS.len() {
    Some(REQS[i as usize])
  } else {
    None // a version tag
  }
}

fn graph_level(case: &Case, o: &mut Outcome) -> bool {
  let reg = registry_of(case);
  let mat = registry::materialize(&reg, false);
  let mut items = Vec::new();
  for (r, dynamic) in &case.imports {
    let spec = match req_text_of(*r) {
      Some(t) => format!("jsr:{PKG}@{t}"),
      None => format!("jsr:{PKG}@latest"),
    };
    items.push(if *dynamic {
      Item::Dynamic {
        spec,
        attr: None,
        types: None,
      }
    } else {
      Item::Import {
        spec,
        attr: None,
        types: None,
      }
    });
  }
  let mut world = World::default();
  world.entries.insert(
    "file:///main.ts".into(),
    Entry::Src {
      lang: Lang::Ts,
      items,
      headers: vec![],
    },
  );
  let mut served = crate::harness::materialize(&world);
  served.extend(mat.served);
  let mut loader = WorldLoader::new(served);
  let listed: Vec<Listed> = case
    .versions
    .iter()
    .map(|v| Listed {
      version: version_of(v.v),
      yanked: v.yanked,
      date: v.date,
    })
    .collect();
  let cached_versions: Vec<Version> = case
    .cached
    .iter()
    .map(|i| version_of(*i))
    .filter(|v| listed.iter().any(|l| &l.version == v))
    .collect();
  if case.prefer_cached {
    loader.cache = Some(
      cached_versions
        .iter()
        .map(|v| {
          url::Url::parse(&format!("{}{PKG}/{v}_meta.json", registry::REGISTRY)).unwrap()
        })
        .collect(),
    );
  }
  let opts = Opts::default();
  let mut graph = ModuleGraph::new(opts.graph_kind());
  // lockfile seeds
  let seeds: Vec<(JsrDepPackageReq, String)> = case
    .seeds
    .iter()
    .filter_map(|(r, v)| {
      let t = req_text_of(*r)?;
      // a lockfile entry satisfies its own requirement
      if !VersionReq::parse_from_specifier(t).ok()?.matches(&version_of(*v)) {
        return None;
      }
      Some((
        JsrDepPackageReq::jsr(PackageReq::from_str(&format!("{PKG}@{t}")).ok()?),
        version_of(*v).to_string(),
      ))
    })
    .collect();
  graph.fill_from_lockfile(FillFromLockfileOptions {
    redirects: std::iter::empty(),
    package_specifiers: seeds.iter().map(|(a, b)| (a, b.as_str())),
  });
  build_into(
    &mut graph,
    parse_roots(&["file:///main.ts".to_string()]),
    vec![],
    BuildEnv {
      loader: &loader,
      opts: &opts,
      locker: None,
      npm: None,
      jsr_version_resolver: Some(JsrVersionResolver {
        newest_dependency_date_options: options(case.cutoff, case.exclude),
      }),
      prefer_cached: case.prefer_cached,
    },
    &Schedule::default(),
    false,
  )
  .expect("ungated build");

  // reference: left fold over the import order
  let applies = cutoff_applies(case.cutoff, case.exclude);
  let mut existing: Vec<Version> = Vec::new();
  let mut exp_map: BTreeMap<PackageReq, String> = BTreeMap::new();
  for (req, v) in &seeds {
    let ver = Version::parse_standard(v).unwrap();
    if !existing.contains(&ver) {
      existing.push(ver);
    }
    exp_map.insert(req.req.clone(), format!("{PKG}@{v}"));
  }
  let had_seeds = !seeds.is_empty();
  let mut exp_yanked: BTreeSet<String> = BTreeSet::new();
  let mut exp_errors: BTreeMap<String, &'static str> = BTreeMap::new();
  let mut exp_redirects: BTreeMap<String, String> = BTreeMap::new();
  let mut nontrivial = false;
  let mut resolved_in_build: BTreeMap<PackageReq, String> = BTreeMap::new();
  let order: Vec<&(u8, bool)> = case
    .imports
    .iter()
    .filter(|(_, d)| !d)
    .chain(case.imports.iter().filter(|(_, d)| *d))
    .collect();
  for (r, _) in order {
    let Some(t) = req_text_of(*r) else {
      exp_errors.insert(format!("jsr:{PKG}@latest"), "tag");
      continue;
    };
    let spec = format!("jsr:{PKG}@{t}");
    let preq = PackageReq::from_str(&format!("{PKG}@{t}")).unwrap();
    // a requirement resolves once per build: an equal requirement (same
    // package, same version range, e.g. `1` and `1.x`) met again lands on
    // the version selected the first time
    if let Some(version) = resolved_in_build.get(&preq) {
      if listed.iter().any(|l| l.version.to_string() == *version) {
        exp_redirects.insert(spec, format!("{}{PKG}/{version}/mod.ts", registry::REGISTRY));
      } else {
        exp_errors.insert(spec, "version-manifest-missing");
      }
      continue;
    }
    let unification = existing.iter().any(|v| preq.version_req.matches(v));
    let cached: Option<Vec<Version>> = if case.prefer_cached && !unification {
      Some(
        cached_versions
          .iter()
          .filter(|v| preq.version_req.matches(v))
          .cloned()
          .collect(),
      )
    } else {
      None
    };
    match select_version(&preq.version_req, &listed, &existing, cached.as_deref(), applies) {
      Sel::Found { version, yanked } => {
        let naive = listed
          .iter()
          .filter(|l| preq.version_req.matches(&l.version))
          .map(|l| l.version.to_string())
          .max_by(|a, b| Version::parse_standard(a).unwrap().cmp(&Version::parse_standard(b).unwrap()));
        if naive.as_deref() != Some(version.as_str()) {
          nontrivial = true;
        }
        exp_map.insert(preq.clone(), format!("{PKG}@{version}"));
        resolved_in_build.insert(preq.clone(), version.clone());
        let ver = Version::parse_standard(&version).unwrap();
        if !existing.contains(&ver) {
          existing.push(ver);
        }
        if yanked {
          exp_yanked.insert(format!("{PKG}@{version}"));
        }
        if listed.iter().any(|l| l.version.to_string() == version) {
          exp_redirects.insert(spec, format!("{}{PKG}/{version}/mod.ts", registry::REGISTRY));
        } else {
          exp_errors.insert(spec, "version-manifest-missing");
        }
      }
      Sel::NotFound { .. } => {
        nontrivial = true;
        exp_errors.insert(spec, "not-found");
      }
    }
  }
  // observed
  let got_map: BTreeMap<PackageReq, String> = graph
    .packages
    .mappings()
    .iter()
    .map(|(k, v)| (k.clone(), v.to_string()))
    .collect();
  let mut pk = graph.packages.clone();
  let got_yanked: BTreeSet<String> =
    pk.used_yanked_packages().map(|nv| nv.to_string()).collect();
  let got_redirects: BTreeMap<String, String> = graph
    .redirects
    .iter()
    .filter(|(k, _)| k.scheme() == "jsr")
    .map(|(k, v)| (k.to_string(), v.to_string()))
    .collect();
  let got_errors: BTreeMap<String, String> = graph
    .module_errors()
    .filter(|e| e.specifier().scheme() == "jsr")
    .map(|e| (e.specifier().to_string(), e.to_string()))
    .collect();
  let restarted = !exp_errors.values().all(|k| *k == "tag" || *k == "version-manifest-missing");
  let seed_tag = if had_seeds && restarted {
    "/seeded+not-found-requirement"
  } else {
    ""
  };
  if got_map != exp_map {
    o.violate(
      format!("C06/graph/mappings{seed_tag}"),
      format!("mappings {got_map:?}\nexpected {exp_map:?}\n(listed {:?}, seeds {:?})",
        listed.iter().map(|l| format!("{}{}{}", l.version, if l.yanked { "(yanked)" } else { "" }, ["", "<", ">", "="][l.date as usize])).collect::<Vec<_>>(),
        seeds.iter().map(|(a, b)| format!("{}->{b}", a.req)).collect::<Vec<_>>()),
    );
  } else {
    if got_redirects != exp_redirects {
      o.violate("C06/graph/redirects", format!("redirects {got_redirects:?}\nexpected {exp_redirects:?}"));
    }
    if got_yanked != exp_yanked {
      o.violate("C06/graph/used-yanked", format!("used yanked {got_yanked:?}\nexpected {exp_yanked:?}"));
    }
    let gk: BTreeSet<&String> = got_errors.keys().collect();
    let ek: BTreeSet<&String> = exp_errors.keys().collect();
    if gk != ek {
      o.violate("C06/graph/error-entries", format!("errors {got_errors:?}\nexpected {exp_errors:?}"));
    } else {
      for (k, kind) in &exp_errors {
        let msg = &got_errors[k];
        let ok = match *kind {
          "tag" => msg.contains("Version tag not supported"),
          "not-found" => msg.contains("Could not find version of"),
          _ => true,
        };
        if !ok {
          o.violate("C06/graph/error-kind", format!("{k}: {msg} (expected {kind})"));
        }
      }
    }
  }
  if had_seeds {
    o.label("lockfile-seeds");
  }
  if case.prefer_cached {
    o.label("prefer-cached");
  }
  if restarted {
    o.label("not-found-requirement");
  }
  nontrivial
}

pub fn check(case: &Case, _tier: Tier) -> Outcome {
  let mut o = Outcome::default();
  let a = fn_level(case, &mut o);
  let b = graph_level(case, &mut o);
  if a {
    o.label("fn-tiers-disagree-with-naive");
  }
  if b {
    o.label("graph-tiers-disagree-with-naive");
  }
  o.nontrivial = a || b;
  o
}

// ---------------------------------------------------------------------------
// exhaustive layer

pub fn extra(tier: Tier, _seed: u64) -> ExtraReport {
  let pool: Vec<u8> = match tier {
    Tier::Quick => vec![1, 2, 3, 4, 5, 6],
    Tier::Thorough => (0..VERSIONS.len() as u8).collect(),
  };
  let kmax = tier.pick(2usize, 3usize);
  // enumerate subsets
  let mut subsets: Vec<Vec<u8>> = vec![vec![]];
  for k in 1..=kmax {
    let mut idx: Vec<usize> = (0..k).collect();
    loop {
      subsets.push(idx.iter().map(|i| pool[*i]).collect());
      let mut i = k;
      loop {
        if i == 0 {
          break;
        }
        i -= 1;
        if idx[i] != i + pool.len() - k {
          break;
        }
        if i == 0 && idx[0] == pool.len() - k {
          i = usize::MAX;
          break;
        }
      }
      if i == usize::MAX || idx[i] == i + pool.len() - k {
        break;
      }
      idx[i] += 1;
      for j in i + 1..k {
        idx[j] = idx[j - 1] + 1;
      }
    }
  }
  let threads = 12usize;
  let chunks: Vec<Vec<Vec<u8>>> = (0..threads)
    .map(|t| subsets.iter().skip(t).step_by(threads).cloned().collect())
    .collect();
  let handles: Vec<_> = chunks
    .into_iter()
    .map(|chunk| {
      std::thread::spawn(move || {
        let mut rep = ExtraReport::default();
        let mut sigs = BTreeSet::new();
        for subset in chunk {
          let k = subset.len();
          for ymask in 0..(1u32 << k) {
            for dcode in 0..4u32.pow(k as u32) {
              let listed: Vec<Listed> = subset
                .iter()
                .enumerate()
                .map(|(i, v)| Listed {
                  version: version_of(*v),
                  yanked: ymask & (1 << i) != 0,
                  date: ((dcode / 4u32.pow(i as u32)) % 4) as u8,
                })
                .collect();
              // existing: subsets of the listed versions plus the unlisted one
              let mut cand: Vec<Version> = listed.iter().map(|l| l.version.clone()).collect();
              cand.push(Version::parse_standard(UNLISTED).unwrap());
              for emask in 0..(1u32 << cand.len()) {
                let existing: Vec<Version> = cand
                  .iter()
                  .enumerate()
                  .filter(|(i, _)| emask & (1 << i) != 0)
                  .map(|(_, v)| v.clone())
                  .collect();
                for cmask in 0..(1u32 << k) {
                  let cached: Vec<Version> = listed
                    .iter()
                    .enumerate()
                    .filter(|(i, _)| cmask & (1 << i) != 0)
                    .map(|(_, l)| l.version.clone())
                    .collect();
                  for (cutoff, exclude) in [(false, 0u8), (true, 0), (true, 1), (true, 2), (true, 3), (true, 4), (true, 5)] {
                    for req in REQS {
                      let mut o = Outcome::default();
                      let nt = fn_eval(&listed, &existing, &cached, req, cutoff, exclude, &mut o);
                      rep.evaluations += 1;
                      if nt {
                        if rep.nontrivial_hashes.len() < 2_000_000 {
                          // hash of the tuple
                          let j = serde_json::json!([subset, ymask, dcode, emask, cmask, cutoff, exclude, req]);
                          rep.nontrivial_hashes.push(crate::runner::hash_json(&j));
                          if rep.samples.is_empty() {
                            rep.samples.push(j);
                          }
                        }
                      }
                      for v in o.violations {
                        if sigs.insert(v.sig.clone()) {
                          let case = Case {
                            versions: subset
                              .iter()
                              .enumerate()
                              .map(|(i, v)| Ver {
                                v: *v,
                                yanked: ymask & (1 << i) != 0,
                                date: ((dcode / 4u32.pow(i as u32)) % 4) as u8,
                              })
                              .collect(),
                            cutoff,
                            exclude,
                            existing: existing
                              .iter()
                              .map(|v| VERSIONS.iter().position(|x| *x == v.to_string()).map(|p| p as u8).unwrap_or(255))
                              .collect(),
                            cached: cached
                              .iter()
                              .map(|v| VERSIONS.iter().position(|x| *x == v.to_string()).unwrap() as u8)
                              .collect(),
                            req: REQS.iter().position(|r| r == req).unwrap() as u8,
                            imports: vec![(0, false)],
                            seeds: vec![],
                            prefer_cached: false,
                          };
                          rep.violations.push((
                            Violation { sig: v.sig, msg: v.msg },
                            serde_json::to_value(&case).unwrap(),
                          ));
                        }
                      }
                    }
                  }
                }
              }
            }
          }
        }
        rep
      })
    })
    .collect();
  let mut rep = ExtraReport::default();
  let mut sigs = BTreeSet::new();
  for h in handles {
    let r = h.join().expect("enumeration thread");
    rep.evaluations += r.evaluations;
    rep.nontrivial_hashes.extend(r.nontrivial_hashes);
    if rep.samples.is_empty() {
      rep.samples.extend(r.samples);
    }
    for (v, c) in r.violations {
      if sigs.insert(v.sig.clone()) {
        rep.violations.push((v, c));
      }
    }
  }
  rep.exhaustive = Some(true);
  rep.notes.push(format!(
    "function level enumerated completely: all sets of <= {kmax} versions out of {} x yanked x 4 date classes x all subsets of already-selected (incl. one unlisted) x all cached subsets x 7 cut-off/exclusion settings x {} requirements = {} evaluations",
    pool.len(),
    REQS.len(),
    rep.evaluations
  ));
  rep
}
