//! C13 — module information survives serialisation; manifest shortcut equals
//! parsing. Oracles: (a) round trip of analyser-produced ModuleInfo values,
//! (b) upgrade of the legacy moduleGraph1 rendering against the v2 original,
//! (c) differential: registry published with embedded module information vs
//! without, cached vs uncached content.

use crate::harness::{build_into, parse_roots, BuildEnv, Schedule, WorldLoader};
use crate::props::c07::{JsrPart, JSR_MAIN};
use crate::props::c08::to_position;
use crate::runner::{idx, Outcome, PropSpec, Tier};
use crate::srcgen::{self, Program};
use crate::world::Opts;
use deno_graph::analysis::{DependencyDescriptor, ModuleInfo};
use deno_graph::{ModuleGraph, ModuleSpecifier};
use proptest::prelude::*;
use serde::{Deserialize, Serialize};
use std::collections::BTreeSet;
use url::Url;

#[derive(Clone, Debug, Serialize, Deserialize)]
pub struct Case {
  pub program: Program,
  pub jsr: JsrPart,
  /// registry files (by global index) whose content is in the loader's cache
  pub cached_files: Vec<u16>,
  pub kind: u8,
  /// some relative imports between the files of a package carry
  /// `type: "text"` / `"bytes"` (the build enables both)
  #[serde(default)]
  pub asset_imports: bool,
}

/// Turns every other attribute-less relative import of the package files into
/// a text / bytes asset import.
fn with_asset_imports(part: &mut JsrPart) {
  use crate::world::Item;
  for p in part.registry.packages.iter_mut() {
    for v in p.versions.iter_mut() {
      for (path, f) in v.files.iter_mut() {
        for (n, it) in f.items.iter_mut().enumerate() {
          if let Item::Import { spec, attr, .. } | Item::SideEffect { spec, attr } | Item::Dynamic { spec, attr, .. } = it {
            if attr.is_none() && spec.starts_with('.') && (n + spec.len() + path.len()) % 2 == 0 {
              *attr = Some(if (n + path.len()) % 3 == 0 { "bytes" } else { "text" }.to_string());
            }
          }
        }
      }
    }
  }
}

pub fn spec() -> PropSpec<Case> {
  PropSpec {
    id: "C13",
    strategy: |tier| {
      (
        srcgen::program_strategy(tier.pick(8, 12)),
        crate::props::c07::jsr_part_strategy(),
        proptest::collection::vec(any::<u16>(), 0..=4),
        prop_oneof![3 => Just(0u8), 1 => Just(1u8), 1 => Just(2u8)],
      )
        .prop_map(|(program, jsr, cached_files, kind)| Case {
          asset_imports: cached_files.len() % 3 == 1,
          program,
          jsr,
          cached_files,
          kind,
        })
        .boxed()
    },
    check,
    cases: |tier| tier.pick(30_000, 600_000),
    rule: "(a)/(b): ModuleInfo values produced by the analyser from generated programs (every dependency form, pragma, JSDoc, attribute, template argument, dynamic kind), serialised to JSON and read back, and their legacy moduleGraph1 rendering (types specifier replaced by the leading comments) upgraded; (c): generated registries published once with moduleGraph2 computed by this analyser from the very sources and once without, with a cache image deciding per file whether the cache-only probe finds content, under all three graph kinds; non-trivial = the value has a non-default field (attributes, template, pragma, JSDoc import, script flag) or a module of the graph came from embedded information with deferred content load; distinct = distinct case JSON",
    assumptions: &[
      "only analyser-produced ModuleInfo values are round-tripped (the statement is about the analysis result of any module)",
      "moduleGraph1 can only express `@deno-types` pragmas; dependencies carrying `@ts-types` are left out of clause (b)",
      "the loader answers the cache-only probe from a cache image and otherwise serves the registry faithfully",
    ],
    crash_is_violation: false,
    extra: None,
    level: "exploration",
  }
}

fn analyse(p: &Program, text: &str) -> Option<ModuleInfo> {
  let url = ModuleSpecifier::parse(p.mt.url()).unwrap();
  deno_graph::ast::ParserModuleAnalyzer::default()
    .analyze_sync(&url, text.into(), p.mt.media_type())
    .ok()
}

fn round_trip(info: &ModuleInfo, o: &mut Outcome) -> bool {
  let v = match serde_json::to_value(info) {
    Ok(v) => v,
    Err(e) => {
      o.violate("C13/does-not-serialise", e.to_string());
      return false;
    }
  };
  let back: Result<ModuleInfo, _> = serde_json::from_value(v.clone());
  match back {
    Err(e) => {
      o.violate(
        "C13/serialised-form-does-not-deserialise",
        format!("{e}\n{v}"),
      );
    }
    Ok(info2) => {
      if &info2 != info {
        // which field?
        let field = if info2.dependencies != info.dependencies {
          let i = info
            .dependencies
            .iter()
            .zip(info2.dependencies.iter())
            .position(|(a, b)| a != b);
          match i.map(|i| &info.dependencies[i]) {
            Some(DependencyDescriptor::Static(s)) => format!("static-dependency/{:?}", s.kind),
            Some(DependencyDescriptor::Dynamic(d)) => format!("dynamic-dependency/{:?}", d.kind),
            None => "dependencies-length".to_string(),
          }
        } else if info2.ts_references != info.ts_references {
          "ts_references".into()
        } else if info2.jsdoc_imports != info.jsdoc_imports {
          "jsdoc_imports".into()
        } else if info2.is_script != info.is_script {
          "is_script".into()
        } else {
          "pragma-or-source-map".into()
        };
        o.violate(
          format!("C13/round-trip-changes-value/{field}"),
          format!("json {v}\nbefore {info:?}\nafter  {info2:?}"),
        );
      } else {
        let v2 = serde_json::to_value(&info2).unwrap();
        if v2 != v {
          o.violate("C13/second-round-not-a-fixed-point", format!("{v}\n{v2}"));
        }
      }
    }
  }
  let nondefault = info.is_script
    || !info.ts_references.is_empty()
    || !info.jsdoc_imports.is_empty()
    || info.self_types_specifier.is_some()
    || info.jsx_import_source.is_some()
    || info.source_map_url.is_some()
    || info.dependencies.iter().any(|d| match d {
      DependencyDescriptor::Static(s) => {
        s.types_specifier.is_some() || !s.import_attributes.is_none() || s.is_side_effect
      }
      DependencyDescriptor::Dynamic(d) => {
        d.types_specifier.is_some()
          || !d.import_attributes.is_none()
          || !matches!(d.argument, deno_graph::analysis::DynamicArgument::String(_))
          || d.kind != deno_graph::analysis::DynamicDependencyKind::Import
      }
    });
  nondefault
}

/// (b) legacy rendering: `typesSpecifier` replaced by `leadingComments`
fn legacy_upgrade(p: &Program, built: &srcgen::Built, info: &ModuleInfo, o: &mut Outcome) {
  let text = &built.text;
  let mut v1 = serde_json::to_value(info).unwrap();
  let Some(deps) = v1.get_mut("dependencies").and_then(|d| d.as_array_mut()) else {
    return;
  };
  let mut expected: Vec<Option<serde_json::Value>> = Vec::new();
  let mut any = false;
  for d in deps.iter_mut() {
    let obj = d.as_object_mut().unwrap();
    let ts = obj.remove("typesSpecifier");
    let mut exp = None;
    if let Some(ts) = ts {
      // find the pragma comment this types specifier came from
      let range: deno_graph::PositionRange =
        serde_json::from_value(ts.get("range").cloned().unwrap()).unwrap();
      let pc = built.pragma_comments.iter().find(|pc| {
        to_position(text, pc.spec_range.0) == range.start
      });
      if let Some(pc) = pc {
        if pc.deno_types {
          let start = to_position(text, pc.comment_start);
          let end_byte = pc.comment_start + 2 + pc.comment_text.len()
            + if text[pc.comment_start..].starts_with("/*") { 2 } else { 0 };
          let end = to_position(text, end_byte.min(text.len()));
          let pragma = serde_json::json!({
            "text": pc.comment_text,
            "range": [[start.line, start.character], [end.line, end.character]],
          });
          // every other time another comment leads the list (the pragma is
          // the last leading comment, as in the source)
          let comments = if pc.spec_range.0 % 2 == 1 {
            serde_json::json!([
              { "text": " some other comment", "range": [[0, 0], [0, 21]] },
              pragma
            ])
          } else {
            serde_json::json!([pragma])
          };
          obj.insert("leadingComments".into(), comments);
          exp = Some(ts);
          any = true;
        }
      }
    }
    expected.push(exp);
  }
  if !any {
    return;
  }
  let manifest = serde_json::json!({
    "exports": "./mod.ts",
    "manifest": {},
    "moduleGraph1": { "/mod.ts": v1 },
  });
  let vi: deno_graph::packages::JsrPackageVersionInfo =
    serde_json::from_value(manifest).expect("version info");
  let Some(up) = vi.module_info("/mod.ts") else {
    o.violate("C13/legacy/module-info-not-readable", format!("{:?}", p.mt));
    return;
  };
  let upv = serde_json::to_value(&up).unwrap();
  let updeps = upv
    .get("dependencies")
    .and_then(|d| d.as_array())
    .cloned()
    .unwrap_or_default();
  for (i, exp) in expected.iter().enumerate() {
    let Some(exp) = exp else { continue };
    let got = updeps.get(i).and_then(|d| d.get("typesSpecifier")).cloned();
    if got.as_ref() != Some(exp) {
      let quoteless = exp
        .get("text")
        .and_then(|t| t.as_str())
        .map(|t| {
          let r: deno_graph::PositionRange =
            serde_json::from_value(exp.get("range").cloned().unwrap()).unwrap();
          (r.end.character - r.start.character) == t.chars().count()
        })
        .unwrap_or(false);
      o.violate(
        format!(
          "C13/legacy/deno-types-{}",
          if got.is_none() { "lost" } else if quoteless { "range-differs/quoteless" } else { "range-differs" }
        ),
        format!("dependency {i}: moduleGraph2 has {exp}, upgraded moduleGraph1 has {got:?}"),
      );
    }
  }
  o.label("legacy-upgrade-checked");
}

fn build_registry(
  jsr: &JsrPart,
  with_module_graph: bool,
  cached_files: &[u16],
  kind: u8,
) -> (ModuleGraph, usize) {
  let mut part = jsr.clone();
  part.with_module_graph = with_module_graph;
  for p in part.registry.packages.iter_mut() {
    for v in p.versions.iter_mut() {
      v.module_graph = if with_module_graph { 1 } else { 0 };
    }
  }
  let mut served = std::collections::BTreeMap::new();
  let mut cache = part.install(&mut served);
  let mut files: Vec<Url> = Vec::new();
  for p in &part.registry.packages {
    for v in &p.versions {
      for path in v.files.keys() {
        files.push(Url::parse(&crate::registry::file_url(&p.name, &v.version, path)).unwrap());
      }
    }
  }
  if !files.is_empty() {
    for c in cached_files {
      cache.insert(files[idx(*c, files.len())].clone());
    }
  }
  let mut loader = WorldLoader::new(served);
  loader.cache = Some(cache);
  let opts = Opts {
    kind,
    // files of a package import one another as text / bytes assets too
    unstable_text: true,
    unstable_bytes: true,
    ..Default::default()
  };
  let mut graph = ModuleGraph::new(opts.graph_kind());
  build_into(
    &mut graph,
    parse_roots(&[JSR_MAIN.to_string()]),
    vec![],
    BuildEnv {
      loader: &loader,
      opts: &opts,
      locker: None,
      npm: None,
      jsr_version_resolver: None,
      prefer_cached: false,
    },
    &Schedule::default(),
    false,
  )
  .expect("ungated build");
  let deferred = loader
    .log
    .borrow()
    .iter()
    .filter(|c| c.cache == "only" && !c.spec.ends_with("meta.json"))
    .count();
  (graph, deferred)
}

pub fn check(case: &Case, _tier: Tier) -> Outcome {
  let mut o = Outcome::default();
  // (a) + (b)
  let built = srcgen::build(&case.program);
  let mut nt_a = false;
  match analyse(&case.program, &built.text) {
    None => {
      o.label("program-does-not-parse");
    }
    Some(info) => {
      nt_a = round_trip(&info, &mut o);
      legacy_upgrade(&case.program, &built, &info, &mut o);
    }
  }
  // (c)
  let assets;
  let jsr = if case.asset_imports {
    let mut j = case.jsr.clone();
    with_asset_imports(&mut j);
    o.label("asset-imports-between-package-files");
    assets = j;
    &assets
  } else {
    &case.jsr
  };
  let (with_info, deferred) = build_registry(jsr, true, &case.cached_files, case.kind);
  let (without, _) = build_registry(jsr, false, &case.cached_files, case.kind);
  let a = crate::obs::graph_json(&with_info);
  let b = crate::obs::graph_json(&without);
  if a != b {
    let part = if a.get("modules") != b.get("modules") {
      // find first differing module
      let am = crate::obs::serialized_modules(&with_info);
      let bm = crate::obs::serialized_modules(&without);
      let k = am
        .iter()
        .find(|(k, v)| bm.get(*k) != Some(v))
        .map(|(k, v)| format!("{k}\n embedded: {v}\n parsed:   {:?}", bm.get(k)))
        .or_else(|| {
          bm.iter()
            .find(|(k, _)| !am.contains_key(*k))
            .map(|(k, v)| format!("{k} only in the parsed build: {v}"))
        })
        .unwrap_or_default();
      let errorish = k.contains("\"error\"");
      (if errorish { "modules/error-entry" } else { "modules" }, k)
    } else if a.get("redirects") != b.get("redirects") {
      ("redirects", format!("{:?}\n{:?}", a.get("redirects"), b.get("redirects")))
    } else {
      ("packages-or-roots", String::new())
    };
    o.violate(
      format!("C13/embedded-vs-parsed/graph/{}", part.0),
      part.1,
    );
  } else {
    // source texts
    let mut texts_a: BTreeSet<(String, String)> = BTreeSet::new();
    let mut texts_b: BTreeSet<(String, String)> = BTreeSet::new();
    for (g, t) in [(&with_info, &mut texts_a), (&without, &mut texts_b)] {
      for m in g.modules() {
        if let Some(src) = m.source() {
          t.insert((m.specifier().to_string(), src.to_string()));
        }
      }
    }
    if texts_a != texts_b {
      let d: Vec<_> = texts_a.symmetric_difference(&texts_b).map(|(k, _)| k.clone()).collect();
      o.violate("C13/embedded-vs-parsed/source-text", format!("{d:?}"));
    }
    let ea: Vec<String> = with_info.module_errors().map(|e| e.to_string_with_range()).collect();
    let eb: Vec<String> = without.module_errors().map(|e| e.to_string_with_range()).collect();
    if ea != eb {
      o.violate("C13/embedded-vs-parsed/errors", format!("embedded {ea:?}\nparsed {eb:?}"));
    }
  }
  if nt_a {
    o.label("non-default-module-info");
  }
  if deferred > 0 {
    o.label("cache-only-probe-issued");
  }
  o.nontrivial = nt_a || deferred > 0;
  o
}
