//! C12 — fast check is all-or-nothing per package, cache-transparent and
//! deterministic. Oracle: invariants over every fast-check step of a history
//! (build, fast check with a shared cache, edit a source, rebuild, ...), and
//! the differential cached vs cache-less vs repeated run.

use crate::fc::{self, MemCache};
use crate::runner::{idx, Outcome, PropSpec, Tier};
use crate::tsgen::{self, Package, RawPackage};
use deno_ast::swc::ast;
use deno_graph::{ModuleGraph, ModuleSpecifier};
use proptest::prelude::*;
use serde::{Deserialize, Serialize};
use std::collections::{BTreeMap, BTreeSet};

#[derive(Clone, Debug, Serialize, Deserialize)]
pub enum Step {
  FastCheck,
  /// edit declaration `decl` of package `pkg`: 0 toggle explicitness
  /// (annotated <-> non-inferable), 1 toggle `export`, 2 change its kind,
  /// 3 toggle whether the root module imports the package itself
  Edit { pkg: u8, decl: u16, what: u8 },
}

#[derive(Clone, Debug, Serialize, Deserialize)]
pub struct Case {
  pub pkgs: Vec<RawPackage>,
  pub cross_star: bool,
  pub history: Vec<Step>,
  /// how the first package depends on the second when `cross_star` is off:
  /// 0 not at all, 1 by-name re-export of one of its exports, 2 an exported
  /// alias of an imported type
  #[serde(default)]
  pub cross_kind: u8,
  /// packages the root module does not import itself at the start (bit mask)
  #[serde(default)]
  pub root_skip: u8,
  /// the first package has one more entrypoint, an untyped JavaScript file
  /// (the package then fails fast check before anything is traced)
  #[serde(default)]
  pub js_entry: bool,
}

pub fn spec() -> PropSpec<Case> {
  PropSpec {
    id: "C12",
    strategy: |tier| {
      (
        proptest::collection::vec(tsgen::raw_package(tier.pick(8, 12)), 1..=3),
        proptest::bool::weighted(0.4),
        proptest::collection::vec(
          prop_oneof![
            2 => Just(Step::FastCheck),
            3 => (0..3u8, any::<u16>(), 0..4u8).prop_map(|(pkg, decl, what)| Step::Edit { pkg, decl, what }),
          ],
          1..=5,
        ),
        0..3u8,
        prop_oneof![3 => Just(0u8), 1 => Just(2u8), 1 => Just(4u8), 1 => Just(6u8)],
      )
        .prop_map(|(pkgs, cross_star, mut history, cross_kind, root_skip)| {
          // every history starts and ends with a fast-check step
          history.insert(0, Step::FastCheck);
          history.push(Step::FastCheck);
          Case {
            pkgs,
            cross_star,
            history,
            cross_kind,
            js_entry: root_skip == 6 && cross_kind == 0,
            root_skip: if root_skip == 6 && cross_kind == 0 { 0 } else { root_skip },
          }
        })
        .boxed()
    },
    check,
    cases: |tier| tier.pick(15_000, 200_000),
    rule: "1-3 generated packages, each optionally depending on the next (`export * from \"jsr:...\"`, a by-name re-export, or an exported alias of an imported type), each imported by the root module or reachable only through its dependent; several entrypoints, in an eighth of the cases one of them an untyped JavaScript file; histories of 3-7 steps over one shared cache: fast check, edit (toggle annotated / non-inferable, toggle export, change kind of one declaration, toggle whether the root imports a package), rebuild, fast check again; each cached fast check is shadowed by a cache-less run and a repeated cache-less run on clones of the same graph; non-trivial = some cached step hit the cache after an edit of a traced module (a stale entry existed) or hit it warm; distinct = distinct case JSON",
    assumptions: &[
      "packages are analysed as registry packages (should_error_on_first_diagnostic = true)",
      "'public API modules' of a package are the modules that have any fast-check slot; the all-or-nothing clause is: no diagnostics anywhere in the package if any module has output, and every entrypoint carries diagnostics if none has",
      "the graph is rebuilt from scratch after every edit (a fresh ModuleGraph), the cache object is shared",
    ],
    crash_is_violation: false,
    extra: None,
    level: "exploration",
  }
}

#[derive(Debug, Clone, PartialEq, Eq)]
pub struct Observed {
  /// module -> (text, source map, serialised dependencies)
  pub emitted: BTreeMap<String, (String, String, String)>,
  /// module -> diagnostic messages
  pub diagnostics: BTreeMap<String, Vec<String>>,
}

pub fn observe(graph: &ModuleGraph) -> Observed {
  let mut emitted = BTreeMap::new();
  let mut diagnostics = BTreeMap::new();
  for m in graph.modules() {
    if let Some(js) = m.js() {
      if let Some(f) = js.fast_check_module() {
        emitted.insert(
          js.specifier.to_string(),
          (
            f.source.to_string(),
            f.source_map.to_string(),
            serde_json::to_string(&f.dependencies).unwrap(),
          ),
        );
      }
      if let Some(d) = js.fast_check_diagnostics() {
        diagnostics.insert(
          js.specifier.to_string(),
          d.iter().map(|x| x.to_string()).collect(),
        );
      }
    }
  }
  Observed {
    emitted,
    diagnostics,
  }
}

fn declared_specifiers(spec: &ModuleSpecifier, text: &str, mt: deno_graph::MediaType) -> Option<BTreeSet<String>> {
  let info = deno_graph::ast::ParserModuleAnalyzer::default()
    .analyze_sync(spec, text.into(), mt)
    .ok()?;
  let mut out = BTreeSet::new();
  for d in &info.dependencies {
    match d {
      deno_graph::analysis::DependencyDescriptor::Static(s) => {
        out.insert(s.specifier.clone());
      }
      deno_graph::analysis::DependencyDescriptor::Dynamic(d) => {
        if let deno_graph::analysis::DynamicArgument::String(s) = &d.argument {
          out.insert(s.clone());
        }
      }
    }
  }
  let _ = ast::Invalid { span: Default::default() };
  Some(out)
}

fn all_or_nothing(
  graph: &ModuleGraph,
  obs: &Observed,
  pkgs: &[Package],
  which: &str,
  o: &mut Outcome,
) {
  for (k, pkg) in pkgs.iter().enumerate() {
    let base = fc::package_base(k);
    let out_mods: Vec<&String> = obs.emitted.keys().filter(|s| s.starts_with(&base)).collect();
    let diag_mods: Vec<&String> = obs.diagnostics.keys().filter(|s| s.starts_with(&base)).collect();
    // the entrypoints of a package in this graph are the exports the graph
    // uses (a package reached only through a dependent may use fewer than
    // its manifest lists)
    let _ = pkg;
    let name = if k == 0 { fc::PKG_NAME.to_string() } else { format!("{}{k}", fc::PKG_NAME) };
    let nv = deno_semver::package::PackageNv {
      name: name.as_str().into(),
      version: deno_semver::Version::parse_standard(fc::PKG_VERSION).unwrap(),
    };
    let Some(used) = graph.packages.package_exports(&nv) else { continue };
    let entrypoints: Vec<String> = used
      .values()
      .map(|v| format!("{base}{}", v.trim_start_matches("./")))
      .collect();
    if !out_mods.is_empty() && !diag_mods.is_empty() {
      o.violate(
        format!("C12/{which}/output-and-diagnostics-in-one-package"),
        format!("package {k}: emitted {out_mods:?}, diagnostics on {diag_mods:?}"),
      );
    }
    if out_mods.is_empty() {
      // nothing emitted: every entrypoint carries the diagnostics (a package
      // that was not analysed at all has neither)
      if !diag_mods.is_empty() {
        for e in &entrypoints {
          if !obs.diagnostics.contains_key(e) {
            o.violate(
              format!("C12/{which}/entrypoint-without-diagnostics"),
              format!("package {k}: no module has output, diagnostics are on {diag_mods:?} but not on the entrypoint {e}"),
            );
          }
        }
        // (diagnostics on further modules are neither demanded nor
        // forbidden by the statement)
        if diag_mods.iter().any(|d| !entrypoints.contains(d)) {
          o.label("diagnostics-on-non-entrypoint");
        }
      }
    } else {
      for e in &entrypoints {
        if !obs.emitted.contains_key(e) {
          o.violate(
            format!("C12/{which}/entrypoint-without-output"),
            format!("package {k}: modules {out_mods:?} have output but the entrypoint {e} has none"),
          );
        }
      }
    }
  }
  // recorded dependencies = what the emitted text declares
  for m in graph.modules() {
    if let Some(js) = m.js() {
      if let Some(f) = js.fast_check_module() {
        let keys: BTreeSet<String> = f.dependencies.keys().cloned().collect();
        if let Some(decl) = declared_specifiers(&js.specifier, &f.source, js.media_type) {
          if keys != decl {
            o.violate(
              format!("C12/{which}/dependencies-differ-from-emitted-text"),
              format!("{}: recorded {keys:?}, the emitted text declares {decl:?}\n{}", js.specifier, f.source),
            );
          }
        }
      }
    }
  }
}

fn apply_edit(pkgs: &mut [RawPackage], root_skip: &mut u8, pkg: u8, decl: u16, what: u8) -> Option<(usize, usize)> {
  let k = pkg as usize % pkgs.len();
  if what % 4 == 3 {
    // package 0 always stays imported by the root
    if k == 0 {
      return None;
    }
    *root_skip ^= 1 << k;
    return Some((k, 0));
  }
  let n = pkgs[k].decls.len();
  if n == 0 {
    return None;
  }
  let i = idx(decl, n);
  let d = &mut pkgs[k].decls[i];
  match what % 4 {
    0 => d.explicitness = if d.explicitness == 2 { 0 } else { 2 },
    1 => d.exported = !d.exported,
    _ => d.kind = (d.kind + 1) % 7,
  }
  Some((k, i))
}

fn build(pkgs: &[RawPackage], cross_star: bool, cross_kind: u8, root_skip: u8) -> (Vec<Package>, ModuleGraph) {
  build_with(pkgs, cross_star, cross_kind, root_skip, false)
}

fn build_with(pkgs: &[RawPackage], cross_star: bool, cross_kind: u8, root_skip: u8, js_entry: bool) -> (Vec<Package>, ModuleGraph) {
  let mut built: Vec<Package> = pkgs.iter().map(tsgen::build).collect();
  if js_entry {
    built[0].files.insert("/x.js".to_string(), "export function f() { return 1; }\n".to_string());
    built[0].exports.push(("./js".to_string(), "./x.js".to_string()));
  }
  // package k depends on package k+1
  for k in 0..built.len().saturating_sub(1) {
    let dep = format!("jsr:{}{}@{}", fc::PKG_NAME, k + 1, fc::PKG_VERSION);
    let offered: Vec<String> = built[k + 1]
      .rec
      .exports
      .get("/mod.ts")
      .map(|s| s.iter().filter(|n| n.starts_with('D')).cloned().collect())
      .unwrap_or_default();
    let line = if cross_star && k == 0 {
      format!("export * from \"{dep}\";\n")
    } else {
      match (cross_kind % 3, offered.first()) {
        (1, Some(n)) => format!("export {{ {n} as Cross{k} }} from \"{dep}\";\n"),
        (2, Some(n)) => format!("import type {{ {n} as Imp{k} }} from \"{dep}\";\nexport type Cross{k} = Imp{k} | undefined;\n"),
        _ => continue,
      }
    };
    built[k].files.get_mut("/mod.ts").unwrap().push_str(&line);
  }
  let refs: Vec<&Package> = built.iter().collect();
  let graph = fc::build_jsr_graph_with(&refs, root_skip & !1);
  (built, graph)
}

pub fn check(case: &Case, _tier: Tier) -> Outcome {
  let mut o = Outcome::default();
  let cache = MemCache::default();
  let mut raws = case.pkgs.clone();
  let mut root_skip = case.root_skip;
  let mut edited_since_last_fc = false;
  let mut stale_or_warm = false;
  let mut saw_default_in_dependency = false;
  let mut fc_steps = 0;
  for step in &case.history {
    match step {
      Step::Edit { pkg, decl, what } => {
        if apply_edit(&mut raws, &mut root_skip, *pkg, *decl, *what).is_some() {
          edited_since_last_fc = true;
        }
      }
      Step::FastCheck => {
        let (built, graph) = build_with(&raws, case.cross_star, case.cross_kind, root_skip, case.js_entry);
        if graph.module_errors().next().is_some() {
          o.discarded = true;
          return o;
        }
        // a default export of a module other than the main entrypoint of the
        // star re-exported package (reached over the package's own `export *`
        // chain, or a further entrypoint the graph may or may not use)
        if built.iter().skip(1).any(|p| {
          p.rec
            .exports
            .iter()
            .any(|(path, names)| names.contains("default") && path != "/mod.ts")
        }) {
          saw_default_in_dependency = true;
        }
        fc_steps += 1;
        let gets_before = cache.gets.borrow().len();
        let mut cached = graph.clone();
        fc::run_fast_check(&mut cached, Some(&cache), None);
        let hits = cache.gets.borrow()[gets_before..].iter().filter(|(_, hit)| *hit).count();
        if hits > 0 {
          stale_or_warm = true;
          if edited_since_last_fc {
            o.label("cache-entry-present-after-edit");
          } else {
            o.label("warm-hit");
          }
        }
        let mut plain = graph.clone();
        fc::run_fast_check(&mut plain, None, None);
        let mut again = graph.clone();
        fc::run_fast_check(&mut again, None, None);
        let oc = observe(&cached);
        let op = observe(&plain);
        let oa = observe(&again);
        all_or_nothing(&plain, &op, &built, "cache-less", &mut o);
        all_or_nothing(&cached, &oc, &built, "cached", &mut o);
        if op != oa {
          o.violate(
            "C12/two-cache-less-runs-differ",
            format!("step {fc_steps}: {:?}\nvs\n{:?}", op.emitted.keys().collect::<Vec<_>>(), oa.emitted.keys().collect::<Vec<_>>()),
          );
        }
        // cache transparency: which modules have output, text, deps, maps
        let kc: BTreeSet<&String> = oc.emitted.keys().collect();
        let kp: BTreeSet<&String> = op.emitted.keys().collect();
        if kc != kp {
          o.violate(
            format!(
              "C12/cache-changes-which-modules-have-output/{}",
              if hits > 0 && edited_since_last_fc { "after-edit" } else if hits > 0 { "warm" } else { "cold" }
            ),
            format!("step {fc_steps}: cached {kc:?}\ncache-less {kp:?}"),
          );
        } else {
          for (k, (t, m, d)) in &oc.emitted {
            let (pt, pm, pd) = &op.emitted[k];
            let part = if t != pt {
              "text"
            } else if d != pd {
              "dependencies"
            } else if m != pm {
              "source-map"
            } else {
              continue;
            };
            o.violate(
              format!(
                "C12/cache-changes-output/{part}/{}",
                if hits > 0 && edited_since_last_fc { "after-edit" } else if hits > 0 { "warm" } else { "cold" }
              ),
              format!("step {fc_steps}: {k}\n--- cached\n{t}\n--- cache-less\n{pt}"),
            );
          }
        }
        edited_since_last_fc = false;
      }
    }
  }
  if case.cross_star && case.pkgs.len() >= 2 {
    o.label("cross-package-star-export");
    // A recorded finding: when package A re-exports everything of package B
    // (`export * from "jsr:B"`), analysing A asks B's star chain for its
    // default exports as well; a run that takes A from the cache does not.
    // Whether a default export behind B's `export *` chain is traced (and
    // emitted, or diagnosed) therefore depends on the cache.
    if saw_default_in_dependency {
      for v in o.violations.iter_mut() {
        if v.sig.starts_with("C12/cache-changes-") {
          v.sig = format!("{}/default-export-behind-a-cross-package-star", v.sig);
        }
      }
    }
  }
  o.nontrivial = stale_or_warm;
  o
}

/// dev aid: print sources, cache content and outputs of every step
pub fn trace(case: &Case) {
  let cache = MemCache::default();
  let mut raws = case.pkgs.clone();
  let mut root_skip = case.root_skip;
  for step in &case.history {
    match step {
      Step::Edit { pkg, decl, what } => {
        println!("=== edit {:?} (root_skip {root_skip:b})", apply_edit(&mut raws, &mut root_skip, *pkg, *decl, *what));
      }
      Step::FastCheck => {
        let (built, graph) = build_with(&raws, case.cross_star, case.cross_kind, root_skip, case.js_entry);
        println!("=== fast check");
        for (k, b) in built.iter().enumerate() {
          for (p, t) in &b.files {
            println!("--- pkg{k} {p}\n{t}");
          }
          println!("entrypoints {:?}", b.rec.entrypoints);
        }
        let mut cached = graph.clone();
        fc::run_fast_check(&mut cached, Some(&cache), None);
        let mut plain = graph.clone();
        fc::run_fast_check(&mut plain, None, None);
        let oc = observe(&cached);
        let op = observe(&plain);
        println!("cached: emitted {:?} diagnostics {:?}", oc.emitted.keys().collect::<Vec<_>>(), oc.diagnostics);
        println!("plain: emitted {:?} diagnostics {:?}", op.emitted.keys().collect::<Vec<_>>(), op.diagnostics);
        if std::env::var("VP_C12_TEXT").is_ok() {
          for (k, (t, _, _)) in &oc.emitted {
            println!("--- cached text {k}\n{t}");
          }
          for (k, (t, _, _)) in &op.emitted {
            println!("--- plain text {k}\n{t}");
          }
        }
        println!("gets {:?} sets {:?}", cache.gets.borrow(), cache.sets.borrow());
        for (k, item) in cache.items.borrow().iter() {
          println!("cache {k}: deps {:?}", item.dependencies);
          for (u, m) in &item.modules {
            println!("   {u} {}", match m { deno_graph::fast_check::FastCheckCacheModuleItem::Info(_) => "info", _ => "diagnostic" });
          }
        }
      }
    }
  }
}
