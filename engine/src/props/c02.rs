//! C02 — validation fails exactly when a followed edge reaches a failure.
//! Oracles: (1) world truth for code validation — reachability over the
//! dependencies the *sources declare* (reference model), (2) graph truth —
//! the error listing under every option set equals the reference walk,
//! (3) every reported error names a failing specifier and a referring range
//! that belongs to a dependency leading to it.

use crate::harness::build_simple;
use crate::obs;
use crate::props::c01::expected_for;
use crate::refmodel::Res;
use crate::refwalk::follow_redirects;
use crate::runner::{Outcome, PropSpec, Tier};
use crate::world::{build_case_strategy, BuildCase, GenParams};
use deno_graph::{
  CheckJsOption, GraphKind, Module, ModuleGraph, ModuleGraphError,
  ModuleSpecifier, WalkOptions,
};
use proptest::prelude::*;
use serde::{Deserialize, Serialize};
use std::collections::{BTreeMap, BTreeSet};

#[derive(Clone, Debug, Serialize, Deserialize)]
pub struct Case {
  pub build: BuildCase,
  pub walk_roots: Vec<u16>,
  /// graph truth only: a graph of generated registry packages on which fast
  /// check has run, with a missing module behind an implementation-only import
  #[serde(default)]
  pub fc: Option<crate::props::c09::Case>,
}

pub fn spec() -> PropSpec<Case> {
  PropSpec {
    id: "C02",
    strategy: |tier| {
      let p = GenParams {
        max_entries: tier.pick(9, 13),
        max_items: tier.pick(5, 7),
        w_err: 2,
        w_text: 2,
        ..Default::default()
      };
      (
        build_case_strategy(p),
        proptest::collection::vec(any::<u16>(), 1..=2),
        proptest::option::weighted(0.1, crate::props::c09::case_strategy(tier)),
      )
        .prop_map(|(mut build, walk_roots, fc)| {
          crate::world::break_redirect_cycles(&mut build.world);
          Case {
            build,
            walk_roots,
            fc: fc.map(|mut f| {
              f.impl_import_missing = true;
              f
            }),
          }
        })
        .boxed()
    },
    check,
    cases: |tier| tier.pick(30_000, 600_000),
    rule: "generated worlds in which failures occur at every kind of position: missing targets, loader errors, unparsable text, unsupported media types, failed resolutions (bare specifiers), invalid attribute types, https->http imports, remote modules importing file:// literals - behind static, dynamic, code and type edges and redirects; a tenth of the cases check the graph-truth clause on graphs of generated registry packages with fast-check modules and a missing module behind an implementation-only import; non-trivial = the world has at least one failure reachable from the roots along some edge class AND the verdicts of code validation with and without dynamic edges, or of the full walk, are not all equal (both 'must fail' and 'must not fail' occur in the case); distinct = distinct case JSON",
    assumptions: &[
      "world truth uses the dependencies the sources declare (engine/src/refmodel.rs) and the entry states of the graph (validated against the world by C01)",
      "graph truth reuses the reference walk of C15 for all 36 option sets",
      "same-attribute proviso, no redirect cycles; entries whose acceptance depends on the request context are excluded from the 'must not fail' direction",
    ],
    crash_is_violation: false,
    extra: None,
    level: "exploration",
  }
}

#[derive(Debug, Clone)]
struct Failure {
  specifier: String,
  what: String,
}

/// Failures reachable from `roots` along code edges declared by the sources.
fn world_truth(
  case: &BuildCase,
  graph: &ModuleGraph,
  follow_dynamic: bool,
) -> (Vec<Failure>, bool) {
  let mods: BTreeMap<&ModuleSpecifier, &Module> =
    graph.modules().map(|m| (m.specifier(), m)).collect();
  let errs: BTreeMap<&ModuleSpecifier, &deno_graph::ModuleError> =
    graph.module_errors().map(|e| (e.specifier(), e)).collect();
  let mut failures = Vec::new();
  let mut uncertain = false;
  let mut seen: BTreeSet<ModuleSpecifier> = BTreeSet::new();
  let root_set: BTreeSet<ModuleSpecifier> = graph.roots.iter().cloned().collect();
  let mut work: Vec<ModuleSpecifier> = graph.roots.iter().cloned().collect();
  // configured imports: only their code targets (none) are walked in a
  // code-only walk
  while let Some(s) = work.pop() {
    if !seen.insert(s.clone()) {
      continue;
    }
    // an entry takes priority over a redirect
    let f = if mods.contains_key(&s) || errs.contains_key(&s) {
      s.clone()
    } else {
      follow_redirects(graph, &s).clone()
    };
    if f != s && !seen.insert(f.clone()) {
      continue;
    }
    if let Some(e) = errs.get(&f) {
      let missing = matches!(e.as_kind(), deno_graph::ModuleErrorKind::Missing { .. });
      // with dynamic edges a missing module is reported from the importing
      // side; a root has no importing side
      let no_importer = e
        .maybe_referrer()
        .map(|r| graph.imports.contains_key(&r.specifier))
        .unwrap_or(true);
      if !(follow_dynamic && missing) || root_set.contains(&s) && no_importer {
        failures.push(Failure {
          specifier: f.to_string(),
          what: format!("error entry: {e}"),
        });
      }
      continue;
    }
    let Some(m) = mods.get(&f) else { continue };
    if !matches!(m, Module::Js(_) | Module::Wasm(_)) {
      continue;
    }
    if obs::acceptance_is_context_sensitive(&case.world, f.as_str()).is_some() {
      uncertain = true;
    }
    let Some(exp) = expected_for(&case.world, m, &case.opts) else {
      uncertain = true;
      continue;
    };
    for (text, d) in &exp.deps {
      if d.is_dynamic && !follow_dynamic {
        continue;
      }
      match d.code() {
        Res::None => {}
        Res::Err => failures.push(Failure {
          specifier: text.clone(),
          what: format!("failed resolution of {text:?} in {f}"),
        }),
        Res::Ok(t) => {
          let tu = ModuleSpecifier::parse(&t).unwrap();
          let from = f.scheme();
          if from == "https" && tu.scheme() == "http" {
            failures.push(Failure {
              specifier: t.clone(),
              what: format!("https module {f} imports http module {t}"),
            });
          } else if matches!(from, "http" | "https")
            && tu.scheme() == "file"
            && text.to_lowercase().starts_with("file://")
          {
            failures.push(Failure {
              specifier: t.clone(),
              what: format!("remote module {f} imports local {t}"),
            });
          } else if follow_dynamic {
            let tf = follow_redirects(graph, &tu);
            if let Some(e) = errs.get(tf) {
              if matches!(e.as_kind(), deno_graph::ModuleErrorKind::Missing { .. }) {
                failures.push(Failure {
                  specifier: tf.to_string(),
                  what: format!("missing module {tf} imported by {f}"),
                });
              }
            }
          }
          work.push(tu);
        }
      }
    }
  }
  (failures, uncertain)
}

fn err_specifier(e: &ModuleGraphError) -> String {
  match e {
    ModuleGraphError::ModuleError(m) => m.specifier().to_string(),
    ModuleGraphError::ResolutionError(r) | ModuleGraphError::TypesResolutionError(r) => {
      use deno_graph::ResolutionError as R;
      match r {
        R::InvalidDowngrade { specifier, .. }
        | R::InvalidJsrHttpsTypesImport { specifier, .. }
        | R::InvalidLocalImport { specifier, .. } => specifier.to_string(),
        R::InvalidSpecifier { .. } => String::new(),
        R::ResolverError { specifier, .. } => specifier.clone(),
      }
    }
  }
}

pub fn check(case: &Case, _tier: Tier) -> Outcome {
  let mut o = Outcome::default();
  let b = &case.build;
  if let Some(fc) = &case.fc {
    // graph truth over a graph with fast-check dependency maps: a failure
    // behind an edge that fast check pruned is not an edge of a walk that
    // prefers the fast-check graph
    let p = crate::props::c09::prepare(fc, None);
    crate::props::c15::check_graph(&p.graph, &case.walk_roots, &[], &mut o, "C02");
    o.label("graph-with-fast-check-modules");
    o.nontrivial = p.graph.module_errors().next().is_some()
      && p.graph.modules().any(|m| m.js().map(|j| j.fast_check_module().is_some()).unwrap_or(false));
    return o;
  }
  let (graph, _) = build_simple(&b.world, &b.roots, &b.imports, &b.opts);
  let multi = obs::context_sensitive_multi_path(&b.world).is_some();

  // (1) world truth for code validation, without and with dynamic edges
  let mut verdicts = Vec::new();
  for follow_dynamic in [false, true] {
    let (failures, uncertain) = world_truth(b, &graph, follow_dynamic);
    let roots: Vec<ModuleSpecifier> = graph.roots.iter().cloned().collect();
    let got = if follow_dynamic {
      graph
        .walk(
          roots.iter(),
          WalkOptions {
            check_js: CheckJsOption::True,
            follow_dynamic: true,
            kind: GraphKind::CodeOnly,
            prefer_fast_check_graph: false,
          },
        )
        .validate()
    } else {
      graph.valid()
    };
    verdicts.push(got.is_ok());
    let tag = if follow_dynamic { "walk-code-dynamic" } else { "valid" };
    match (&got, failures.is_empty()) {
      (Ok(()), false) => {
        if !multi {
          let kind = if failures[0].what.starts_with("error entry: Module not found")
            && graph.roots.iter().any(|r| {
              r.as_str() == failures[0].specifier
                || follow_redirects(&graph, r).as_str() == failures[0].specifier
            }) {
            "missing-root"
          } else {
            "other"
          };
          o.violate(
            format!("C02/{tag}/reachable-failure-not-reported/{kind}"),
            format!("validation succeeded although: {:?}", failures.iter().map(|f| &f.what).collect::<Vec<_>>()),
          );
        }
      }
      (Err(e), true) => {
        if !uncertain && !multi {
          o.violate(
            format!("C02/{tag}/fails-without-reachable-failure"),
            format!("validation failed with {e} but no failure is reachable along the selected edges"),
          );
        }
      }
      (Err(e), false) => {
        // the reported error names one of the reachable failures
        let spec = err_specifier(e);
        let named = failures.iter().any(|f| {
          f.specifier == spec
            || ModuleSpecifier::parse(&f.specifier)
              .ok()
              .map(|u| follow_redirects(&graph, &u).as_str() == spec)
              .unwrap_or(false)
        });
        if !named && !spec.is_empty() && !uncertain && !multi {
          o.violate(
            format!("C02/{tag}/reported-error-is-not-a-reachable-failure"),
            format!("reported {e} ({spec}); reachable failures: {:?}", failures.iter().map(|f| &f.what).collect::<Vec<_>>()),
          );
        }
      }
      (Ok(()), true) => {}
    }
  }

  // (2) graph truth under every option set, from drawn roots
  crate::props::c15::check_graph(&graph, &case.walk_roots, &[], &mut o, "C02");

  // (3) every error names a failing specifier and a referring location
  let all: Vec<ModuleGraphError> = graph
    .walk(
      graph.roots.iter(),
      WalkOptions {
        check_js: CheckJsOption::True,
        follow_dynamic: true,
        kind: graph.graph_kind(),
        prefer_fast_check_graph: false,
      },
    )
    .errors()
    .collect();
  for e in &all {
    if let Some(range) = e.maybe_range() {
      // the range belongs to a dependency (or configured import) of the
      // referring module whose resolution is this error / leads to it
      let spec = err_specifier(e);
      let mut found = false;
      let leads = |t: &ModuleSpecifier| {
        t.as_str() == spec || follow_redirects(&graph, t).as_str() == spec
      };
      if let Some(m) = graph.modules().find(|m| m.specifier() == &range.specifier) {
        for (text, d) in m.dependencies() {
          for r in [&d.maybe_code, &d.maybe_type] {
            match r {
              deno_graph::Resolution::Ok(ok) => {
                if ok.range == *range && (leads(&ok.specifier) || spec.is_empty()) {
                  found = true;
                }
              }
              deno_graph::Resolution::Err(err) => {
                if err.range() == range || text == &spec {
                  found = true;
                }
              }
              _ => {}
            }
          }
        }
        if let Some(td) = m.maybe_types_dependency() {
          if td.dependency.maybe_range() == Some(range) {
            found = true;
          }
        }
        if let Some(js) = m.js() {
          if let Some(sm) = &js.maybe_source_map_dependency {
            if sm.dependency.maybe_range() == Some(range) {
              found = true;
            }
          }
        }
      } else {
        // configured import referrer, or a module replaced later
        found = true;
      }
      if !found && !multi {
        o.violate(
          "C02/error-range-is-not-a-dependency-of-the-referrer",
          format!("{} at {range}", e),
        );
      }
    }
  }

  let full_ok = all.is_empty();
  verdicts.push(full_ok);
  let any_failure = !graph.module_errors().next().is_none()
    || graph.modules().any(|m| {
      m.dependencies()
        .values()
        .any(|d| d.maybe_code.err().is_some() || d.maybe_type.err().is_some())
    });
  if verdicts[0] {
    o.label("valid-ok");
  } else {
    o.label("valid-err");
  }
  if verdicts[0] != verdicts[1] {
    o.label("dynamic-edges-change-verdict");
  }
  if verdicts[0] && !full_ok {
    o.label("failure-confined-to-type-or-dynamic-edges");
  }
  o.nontrivial = any_failure && !(verdicts[0] == verdicts[1] && verdicts[1] == verdicts[2]);
  o
}
