//! C14 — redirect following terminates and all lookups agree with the walk.
//! Oracle: the walk itself (metamorphic agreement of every lookup API with
//! what `walk([s])` reaches), plus idempotence of `resolve`.

use crate::harness::{build_into, parse_roots, BuildEnv, Schedule, WorldLoader};
use crate::obs;
use crate::runner::{Outcome, PropSpec, Tier};
use crate::world::{Entry, Item, Lang, Opts, World};
use deno_graph::{
  CheckJsOption, FillFromLockfileOptions, GraphKind, Module, ModuleEntryRef,
  ModuleGraph, ModuleSpecifier, Resolution, WalkOptions,
};
use proptest::prelude::*;
use serde::{Deserialize, Serialize};
use std::collections::BTreeSet;

#[derive(Clone, Debug, Serialize, Deserialize)]
pub enum Tail {
  /// a TypeScript module
  Module,
  /// a JavaScript module with `@ts-self-types` pointing at a declaration file
  /// which is `types_state`: 0 = present, 1 = missing, 2 = behind a redirect
  JsWithTypes { types_state: u8 },
  Missing,
  LoadErr,
  External,
  Json,
  /// redirects back to node `to` of the same chain (a cycle)
  CycleTo { to: u8 },
}

#[derive(Clone, Debug, Serialize, Deserialize)]
pub struct Chain {
  /// number of redirects before the tail
  pub len: u8,
  pub tail: Tail,
  /// hops (by index) the loader follows itself (module answered under the
  /// next specifier) instead of answering with a redirect
  pub implicit: Vec<u8>,
  /// 0 = static import, 1 = dynamic import, 2 = type import, 3 = not imported (root)
  pub import_kind: u8,
  /// hops (by index) that are seeded from the lockfile instead of answered
  pub seeded: Vec<u8>,
}

#[derive(Clone, Debug, Serialize, Deserialize)]
pub struct Case {
  pub chains: Vec<Chain>,
  pub kind: u8,
  /// extra lockfile redirects between arbitrary chain nodes: (chain, from, to)
  pub extra_seeded: Vec<(u8, u8, u8)>,
  pub max_redirects: u8,
}

fn node(c: usize, i: usize) -> String {
  format!("https://r.test/c{c}/n{i}.ts")
}

fn chain_strategy(tier: Tier) -> impl Strategy<Value = Chain> {
  let max_len = tier.pick(13u8, 16u8);
  (
    0..=max_len,
    prop_oneof![
      3 => Just(Tail::Module),
      2 => (0..3u8).prop_map(|types_state| Tail::JsWithTypes { types_state }),
      1 => Just(Tail::Missing),
      1 => Just(Tail::LoadErr),
      1 => Just(Tail::External),
      1 => Just(Tail::Json),
      2 => (0..16u8).prop_map(|to| Tail::CycleTo { to }),
    ],
    proptest::collection::vec(0..16u8, 0..=2),
    0..4u8,
    proptest::collection::vec(0..16u8, 0..=3),
  )
    .prop_map(|(len, tail, implicit, import_kind, seeded)| Chain {
      len,
      tail,
      implicit,
      import_kind,
      seeded,
    })
}

pub fn spec() -> PropSpec<Case> {
  PropSpec {
    id: "C14",
    strategy: |tier| {
      (
        proptest::collection::vec(chain_strategy(tier), 1..=3),
        0..3u8,
        proptest::collection::vec((0..3u8, 0..16u8, 0..16u8), 0..=2),
        prop_oneof![4 => Just(10u8), 1 => Just(3u8), 1 => Just(12u8)],
      )
        .prop_map(|(chains, kind, extra_seeded, max_redirects)| Case {
          chains,
          kind,
          extra_seeded,
          max_redirects,
        })
        .boxed()
    },
    check,
    cases: |tier| tier.pick(30_000, 600_000),
    rule: "1-3 redirect chains of length 0..=13 (thorough 16) hops, each hop answered by the loader as a redirect, followed by the loader itself, or seeded from the lockfile; tails: module, JS module with loaded / missing / redirected types, missing, load error, external, JSON, or a redirect back into the chain (cycles of every length); heads imported statically / dynamically / as types from a root module or built as roots; loader redirect limit 3 / 10 / 12; non-trivial = some chain has >= 2 hops, or a cycle, or a failing tail behind >= 1 hop; distinct = distinct case JSON",
    assumptions: &[
      "w(s) is what graph.walk([s]) yields first after its Redirect items, on a copy of the graph without configured imports",
      "lockfile seeds use remote specifiers only (fill_from_lockfile ignores file:, npm:, jsr: sources)",
      "termination is enforced by the worker watchdog (a hang is a violation of this property)",
    ],
    crash_is_violation: true,
    extra: None,
    level: "exploration",
  }
}

pub fn build_world(case: &Case) -> (World, Vec<String>, Vec<(String, String)>) {
  let mut w = World::default();
  let mut main_items: Vec<Item> = Vec::new();
  let mut roots: Vec<String> = vec!["https://r.test/main.ts".to_string()];
  let mut seeded: Vec<(String, String)> = Vec::new();
  for (c, ch) in case.chains.iter().enumerate() {
    let len = ch.len as usize;
    // tail entry
    let tail_url = node(c, len);
    let mut cycle: Option<usize> = None;
    match &ch.tail {
      Tail::Module => {
        w.entries.insert(
          tail_url.clone(),
          Entry::Src {
            lang: Lang::Ts,
            items: vec![Item::Filler],
            headers: vec![],
          },
        );
      }
      Tail::JsWithTypes { types_state } => {
        let types = format!("https://r.test/c{c}/types.d.ts");
        w.entries.insert(
          tail_url.clone(),
          Entry::Src {
            lang: Lang::Js,
            items: vec![Item::SelfTypes { spec: types.clone() }, Item::Filler],
            headers: vec![("content-type".into(), "text/javascript".into())],
          },
        );
        let dts = Entry::Src {
          lang: Lang::Dts,
          items: vec![Item::Filler],
          headers: vec![],
        };
        match types_state {
          0 => {
            w.entries.insert(types, dts);
          }
          1 => {}
          _ => {
            let real = format!("https://r.test/c{c}/real.d.ts");
            w.entries.insert(types, Entry::Redirect { to: real.clone() });
            w.entries.insert(real, dts);
          }
        }
      }
      Tail::Missing => {}
      Tail::LoadErr => {
        w.entries.insert(tail_url.clone(), Entry::LoadErr);
      }
      Tail::External => {
        w.entries.insert(tail_url.clone(), Entry::External);
      }
      Tail::Json => {
        w.entries.insert(
          tail_url.clone(),
          Entry::Text {
            text: "{\"a\":1}".into(),
            headers: vec![("content-type".into(), "application/json".into())],
          },
        );
      }
      Tail::CycleTo { to } => {
        cycle = Some(*to as usize % (len + 1));
      }
    }
    if let Some(to) = cycle {
      w.entries
        .insert(tail_url.clone(), Entry::Redirect { to: node(c, to) });
    }
    for i in 0..len {
      let from = node(c, i);
      let to = node(c, i + 1);
      let is_seeded = ch.seeded.iter().any(|s| *s as usize % len.max(1) == i && len > 0);
      let is_implicit = ch.implicit.iter().any(|s| *s as usize % len.max(1) == i && len > 0);
      if is_seeded {
        seeded.push((from.clone(), to.clone()));
        // the loader would still answer if asked
        w.entries.insert(from, Entry::Redirect { to });
      } else if is_implicit {
        w.entries.insert(from, Entry::Alias { to });
      } else {
        w.entries.insert(from, Entry::Redirect { to });
      }
    }
    let head = node(c, 0);
    match ch.import_kind {
      0 => main_items.push(Item::Import {
        spec: head,
        attr: None,
        types: None,
      }),
      1 => main_items.push(Item::Dynamic {
        spec: head,
        attr: None,
        types: None,
      }),
      2 => main_items.push(Item::ImportType { spec: head }),
      _ => roots.push(head),
    }
  }
  for (c, from, to) in &case.extra_seeded {
    let c = *c as usize % case.chains.len();
    let len = case.chains[c].len as usize + 1;
    let (f, t) = (*from as usize % len, *to as usize % len);
    if f != t {
      seeded.push((node(c, f), node(c, t)));
    }
  }
  w.entries.insert(
    "https://r.test/main.ts".to_string(),
    Entry::Src {
      lang: Lang::Ts,
      items: main_items,
      headers: vec![],
    },
  );
  (w, roots, seeded)
}

#[derive(Debug, Clone, PartialEq, Eq)]
pub enum Reached {
  Module(String),
  Err(String, String),
  Nothing,
}

/// What `walk([s])` reaches after its leading Redirect items.
pub fn walk_reach(g: &ModuleGraph, s: &ModuleSpecifier) -> Reached {
  let it = g.walk(
    std::iter::once(s),
    WalkOptions {
      check_js: CheckJsOption::True,
      follow_dynamic: false,
      kind: GraphKind::CodeOnly,
      prefer_fast_check_graph: false,
    },
  );
  for (spec, e) in it {
    match e {
      ModuleEntryRef::Redirect(_) => continue,
      ModuleEntryRef::Module(_) => return Reached::Module(spec.to_string()),
      ModuleEntryRef::Err(err) => {
        return Reached::Err(spec.to_string(), err.to_string())
      }
    }
  }
  Reached::Nothing
}

pub fn check(case: &Case, _tier: Tier) -> Outcome {
  let mut o = Outcome::default();
  let (world, roots, seeded) = build_world(case);
  let opts = Opts {
    kind: case.kind,
    ..Default::default()
  };
  let mut loader = WorldLoader::from_world(&world);
  loader.max_redirects = case.max_redirects as usize;
  let mut graph = ModuleGraph::new(opts.graph_kind());
  graph.fill_from_lockfile(FillFromLockfileOptions {
    redirects: seeded.iter().map(|(a, b)| (a.as_str(), b.as_str())),
    package_specifiers: std::iter::empty(),
  });
  build_into(
    &mut graph,
    parse_roots(&roots),
    vec![],
    BuildEnv {
      loader: &loader,
      opts: &opts,
      locker: None,
      npm: None,
      jsr_version_resolver: None,
      prefer_cached: false,
    },
    &Schedule::default(),
    false,
  )
  .expect("ungated build");
  if obs::has_internal_error(&obs::graph_json(&graph)) {
    o.violate("C14/pending-entry-after-build", "serialised graph has an internal error entry");
  }
  check_lookups(&graph, &mut o, "C14");

  let max_len = case.chains.iter().map(|c| c.len).max().unwrap_or(0);
  let has_cycle = case.chains.iter().any(|c| matches!(c.tail, Tail::CycleTo { .. }));
  let failing_behind = case.chains.iter().any(|c| {
    c.len >= 1 && matches!(c.tail, Tail::Missing | Tail::LoadErr | Tail::Json)
  });
  if has_cycle {
    o.label("cycle");
  }
  if max_len as usize >= case.max_redirects as usize {
    o.label("chain-at-or-beyond-loader-limit");
  }
  if max_len >= 9 {
    o.label("chain>=9");
  }
  if !seeded.is_empty() {
    o.label("lockfile-seeded");
  }
  if case.chains.iter().any(|c| !c.implicit.is_empty() && c.len > 0) {
    o.label("loader-followed-hop");
  }
  if failing_behind {
    o.label("failure-behind-redirect");
  }
  o.nontrivial = max_len >= 2 || has_cycle || failing_behind;
  o
}

/// The lookup clauses, usable on any graph.
pub fn check_lookups(graph: &ModuleGraph, o: &mut Outcome, id: &str) {
  let mut g = graph.clone();
  g.imports.clear();
  let g = &g;
  // the specifiers the property quantifies over
  let mut specs: BTreeSet<ModuleSpecifier> = BTreeSet::new();
  for r in &g.roots {
    specs.insert(r.clone());
  }
  for (a, b) in &g.redirects {
    specs.insert(a.clone());
    specs.insert(b.clone());
  }
  for m in g.modules() {
    specs.insert(m.specifier().clone());
    for d in m.dependencies().values() {
      for r in [&d.maybe_code, &d.maybe_type] {
        if let Some(s) = r.maybe_specifier() {
          specs.insert(s.clone());
        }
      }
    }
    if let Some(td) = m.maybe_types_dependency() {
      if let Some(s) = td.dependency.maybe_specifier() {
        specs.insert(s.clone());
      }
    }
  }
  for e in g.module_errors() {
    specs.insert(e.specifier().clone());
  }
  let hops = |s: &ModuleSpecifier| -> usize {
    let mut n = 0;
    let mut cur = s;
    let mut seen = BTreeSet::new();
    while let Some(next) = g.redirects.get(cur) {
      if !seen.insert(cur.clone()) {
        return 99; // cycle
      }
      cur = next;
      n += 1;
    }
    n
  };
  let shape = |s: &ModuleSpecifier| -> String {
    match hops(s) {
      99 => "cycle".to_string(),
      n if n >= 9 => "hops>=9".to_string(),
      _ => "hops<9".to_string(),
    }
  };
  let listed: Vec<(String, Result<String, String>)> = g
    .specifiers()
    .map(|(s, r)| {
      (
        s.to_string(),
        r.map(|m| m.specifier().to_string()).map_err(|e| e.to_string()),
      )
    })
    .collect();
  for s in &specs {
    let r1 = g.resolve(s);
    let r2 = g.resolve(r1);
    if r1 != r2 {
      o.violate(
        format!("{id}/resolve-not-idempotent/{}", shape(s)),
        format!("resolve({s}) = {r1}, resolve of that = {r2}"),
      );
    }
    let w = walk_reach(g, s);
    let got_get = g.get(s).map(|m| m.specifier().to_string());
    let got_contains = g.contains(s);
    let got_try = match g.try_get(s) {
      Ok(Some(m)) => Reached::Module(m.specifier().to_string()),
      Ok(None) => Reached::Nothing,
      Err(e) => Reached::Err(e.specifier().to_string(), e.to_string()),
    };
    match &w {
      Reached::Module(m) => {
        if got_get.as_ref() != Some(m) {
          o.violate(
            format!("{id}/get-vs-walk/{}", shape(s)),
            format!("walk([{s}]) reaches module {m}, get() = {got_get:?}"),
          );
        }
        if !got_contains {
          o.violate(
            format!("{id}/contains-vs-walk/{}", shape(s)),
            format!("walk([{s}]) reaches module {m}, contains() = false"),
          );
        }
      }
      _ => {
        if got_get.is_some() {
          o.violate(
            format!("{id}/get-vs-walk/{}", shape(s)),
            format!("walk([{s}]) reaches {w:?}, get() = {got_get:?}"),
          );
        }
        if got_contains {
          o.violate(
            format!("{id}/contains-vs-walk/{}", shape(s)),
            format!("walk([{s}]) reaches {w:?}, contains() = true"),
          );
        }
      }
    }
    if got_try != w {
      o.violate(
        format!("{id}/try_get-vs-walk/{}", shape(s)),
        format!("walk([{s}]) reaches {w:?}, try_get() = {got_try:?}"),
      );
    }
    // specifiers() lists redirect sources with their target's result
    if g.redirects.contains_key(s) {
      let entry = listed.iter().find(|(k, _)| k == s.as_str());
      let expected = match &w {
        Reached::Module(m) => Some(Ok(m.clone())),
        Reached::Err(_, e) => Some(Err(e.clone())),
        Reached::Nothing => None,
      };
      let got = entry.map(|(_, r)| r.clone());
      if got != expected {
        o.violate(
          format!("{id}/specifiers-vs-walk/{}", shape(s)),
          format!("redirect source {s}: walk reaches {w:?}, specifiers() lists {got:?}"),
        );
      }
    }
    // try_get_prefer_types: the loaded types module when there is one
    if let Reached::Module(m) = &w {
      let Some(m) = g.modules().find(|x| x.specifier().as_str() == m.as_str()) else {
        continue;
      };
      let types = m
        .js()
        .and_then(|j| j.maybe_types_dependency.as_ref())
        .and_then(|d| d.dependency.maybe_specifier());
      let got = match g.try_get_prefer_types(s) {
        Ok(Some(x)) => Reached::Module(x.specifier().to_string()),
        Ok(None) => Reached::Nothing,
        Err(e) => Reached::Err(e.specifier().to_string(), e.to_string()),
      };
      match types {
        None => {
          if got != w {
            o.violate(
              format!("{id}/try_get_prefer_types/no-types/{}", shape(s)),
              format!("{s}: no types dependency, walk reaches {w:?}, got {got:?}"),
            );
          }
        }
        Some(t) => {
          let wt = walk_reach(g, t);
          if let Reached::Module(_) = wt {
            if got != wt {
              o.violate(
                format!("{id}/try_get_prefer_types/types-loaded/{}", shape(t)),
                format!("{s}: types {t} reach {wt:?}, got {got:?}"),
              );
            }
          }
        }
      }
    }
  }
  // resolve_dependency with and without type preference
  for m in g.modules() {
    for (text, dep) in m.dependencies() {
      for prefer_types in [false, true] {
        let (first, second) = if prefer_types {
          (&dep.maybe_type, &dep.maybe_code)
        } else {
          (&dep.maybe_code, &dep.maybe_type)
        };
        let target = match (first, second) {
          (Resolution::Ok(r), _) => Some(&r.specifier),
          (_, Resolution::Ok(r)) => Some(&r.specifier),
          _ => None,
        };
        let expected: Option<String> = target.and_then(|t| match walk_reach(g, t) {
          Reached::Module(ms) => {
            let Some(mm) = g.modules().find(|x| x.specifier().as_str() == ms.as_str()) else {
              return Some(ms);
            };
            if prefer_types {
              if let Module::Js(js) = mm {
                if let Some(tt) = js
                  .maybe_types_dependency
                  .as_ref()
                  .and_then(|d| d.dependency.maybe_specifier())
                {
                  if let Reached::Module(tm) = walk_reach(g, tt) {
                    return Some(tm);
                  }
                }
              }
            }
            Some(ms)
          }
          _ => None,
        });
        let got = g
          .resolve_dependency(text, m.specifier(), prefer_types)
          .map(|s| s.to_string());
        if got != expected {
          let sh = target.map(|t| shape(t)).unwrap_or_default();
          o.violate(
            format!("{id}/resolve_dependency-vs-walk/prefer_types={prefer_types}/{sh}"),
            format!(
              "{} imports {text:?}: expected {expected:?}, resolve_dependency = {got:?}",
              m.specifier()
            ),
          );
        }
      }
    }
  }
}
