//! C17 — pruning types from a full graph gives the code-only graph.
//! Oracle: differential, `build(All).prune_types()` vs `build(CodeOnly)`.

use crate::harness::build_simple;
use crate::obs;
use crate::runner::{Outcome, PropSpec, Tier};
use crate::world::{build_case_strategy, BuildCase, GenParams, Opts};
use proptest::prelude::*;

pub fn spec() -> PropSpec<BuildCase> {
  PropSpec {
    id: "C17",
    strategy: |tier| {
      let p = GenParams {
        max_entries: tier.pick(8, 12),
        max_items: tier.pick(5, 7),
        ..Default::default()
      };
      build_case_strategy(p)
        .prop_map(|mut c| {
          c.opts.kind = 0;
          c.opts.is_dynamic = false;
          c.opts.skip_dynamic_deps = false;
          crate::world::break_redirect_cycles(&mut c.world);
          c
        })
        .boxed()
    },
    check,
    cases: |tier| tier.pick(60_000, 1_500_000),
    rule: "worlds from the shared generator (all import forms, media types, redirects, externals, errors, options), built once with GraphKind::All then pruned, once with CodeOnly; non-trivial = pruning removed at least one entry or type resolution AND kept at least two module entries; distinct = distinct case JSON",
    assumptions: &[
      "all imports of one target (up to world redirects) use the same `type` attribute (enforced by construction)",
      "error entries are compared by their Display text (referrer ranges are compared for code edges only)",
      "build options is_dynamic and skip_dynamic_deps are left at their defaults; worlds have no redirect cycles (C14/C03 own those)",
      "the code-only build is given no configured type imports (they are types by definition)",
      "a source-map URL target is not requested in any other way (asset vs module is decided by the first request, like the attribute proviso)",
      "Wasm source_dts and empty dependency entries are not compared",
    ],
    crash_is_violation: false,
    extra: None,
    level: "exploration",
  }
}

pub fn norm_state(s: &str) -> String {
  // strip URLs and digits, keep the leading words of the message
  let mut out = String::new();
  let mut skip = false;
  for w in s.split_whitespace() {
    if w.contains("://") || w.starts_with("file:") || w.starts_with("\"") {
      skip = true;
    }
    if !skip {
      out.push_str(w);
      out.push(' ');
    }
    skip = false;
    if out.len() > 48 {
      break;
    }
  }
  out.trim().chars().filter(|c| !c.is_ascii_digit()).collect()
}

pub fn check(case: &BuildCase, _tier: Tier) -> Outcome {
  let mut o = Outcome::default();
  let all_opts = Opts {
    kind: 0,
    ..case.opts.clone()
  };
  let code_opts = Opts {
    kind: 1,
    ..case.opts.clone()
  };
  let (full, _) = build_simple(&case.world, &case.roots, &case.imports, &all_opts);
  // configured imports are type imports by definition ("these are always
  // types"): a code-only build is given none
  let (code, _) = build_simple(&case.world, &case.roots, &[], &code_opts);
  let mut pruned = full.clone();
  pruned.prune_types();

  // --- facts about the pruned graph alone
  if pruned.graph_kind() != deno_graph::GraphKind::CodeOnly {
    o.violate("C17/kind-not-code-only", "graph_kind() after prune_types is not CodeOnly");
  }
  if !pruned.imports.is_empty() {
    o.violate("C17/imports-remain", format!("imports remain: {:?}", pruned.imports.keys().collect::<Vec<_>>()));
  }
  for m in pruned.modules() {
    if m.maybe_types_dependency().is_some() {
      o.violate("C17/types-dependency-remains", format!("{} keeps maybe_types_dependency", m.specifier()));
    }
    for (t, d) in m.dependencies() {
      if !d.maybe_type.is_none() {
        o.violate("C17/type-resolution-remains", format!("{} dep {t} keeps maybe_type", m.specifier()));
      }
    }
    if let Some(js) = m.js() {
      if js.fast_check.is_some() {
        o.violate("C17/fast-check-remains", format!("{}", m.specifier()));
      }
    }
  }

  // --- differential against the code-only build
  let pe = obs::entries(&pruned, false);
  let ce = obs::entries(&code, false);
  // By-design context dependence: whether an answer of unknown or JSON media
  // type is a module depends on the first request (root, dynamic branch).
  // When the two builds disagree on such a specifier everything downstream
  // differs too, so only that finding is reported for the case.
  for (k, v) in &pe {
    if let Some(w) = ce.get(k) {
      if w != v {
        if let Some(class) = obs::acceptance_is_context_sensitive(&case.world, k) {
          o.violate(
            format!("C17/context-sensitive-acceptance/{class}"),
            format!("{k}: pruned={v} code-only={w}"),
          );
          o.label("context-sensitive-divergence");
          return o;
        }
      }
    }
  }
  let multi = obs::context_sensitive_multi_path(&case.world);
  let base = o.violations.len();
  for (k, v) in &pe {
    match ce.get(k) {
      None => o.violate(
        format!("C17/entry/only-in-pruned/{}", norm_state(v)),
        format!("{k}: pruned has {v}, code-only build has nothing"),
      ),
      Some(w) if w != v => o.violate(
        format!("C17/entry/differs/{}/{}", norm_state(v), norm_state(w)),
        format!("{k}: pruned={v} code-only={w}"),
      ),
      _ => {}
    }
  }
  for (k, w) in &ce {
    if !pe.contains_key(k) {
      o.violate(
        format!("C17/entry/only-in-code/{}", norm_state(w)),
        format!("{k}: code-only build has {w}, pruned has nothing"),
      );
    }
  }
  let pr = obs::redirects(&pruned);
  let cr = obs::redirects(&code);
  for d in obs::diff_maps(&pr, &cr, "pruned", "code-only") {
    let kind = if d.contains("only in pruned") {
      "only-in-pruned"
    } else if d.contains("only in code-only") {
      "only-in-code"
    } else {
      "differs"
    };
    o.violate(format!("C17/redirect/{kind}"), d);
  }
  let pedges = obs::code_edges(&pruned);
  let cedges = obs::code_edges(&code);
  for e in pedges.difference(&cedges) {
    o.violate("C17/code-edge/only-in-pruned", format!("{e:?}"));
  }
  for e in cedges.difference(&pedges) {
    o.violate("C17/code-edge/only-in-code", format!("{e:?}"));
  }
  let pv = pruned.valid().map_err(|e| e.to_string());
  let cv = code.valid().map_err(|e| e.to_string());
  if pv.is_ok() != cv.is_ok() {
    o.violate(
      format!("C17/valid-verdict/{}-{}", pv.is_ok(), cv.is_ok()),
      format!("pruned.valid()={pv:?} code.valid()={cv:?}"),
    );
  }
  // the full error listing of the default code validation walk, order-free
  let roots: Vec<_> = pruned.roots.iter().cloned().collect();
  let pw = obs::walk_errors(&pruned, &roots, deno_graph::GraphKind::CodeOnly, false);
  let cw = obs::walk_errors(&code, &roots, deno_graph::GraphKind::CodeOnly, false);
  if pw != cw {
    o.violate(
      "C17/validation-errors-differ",
      format!("pruned walk errors={pw:?}\ncode-only walk errors={cw:?}"),
    );
  }

  if let Some(class) = multi {
    if o.violations.len() > base {
      // a context-sensitive answer reachable through two requests: the later
      // answer may overwrite the entry, and everything downstream differs
      let first = o.violations[base].msg.clone();
      o.violations.truncate(base);
      o.violate(
        format!("C17/context-sensitive-acceptance/{class}"),
        format!("(through a redirect/alias to a context-sensitive answer) {first}"),
      );
      o.label("context-sensitive-divergence");
      return o;
    }
  }

  // --- labels / non-triviality
  let fe = obs::entries(&full, false);
  let removed = fe.len() - pe.len().min(fe.len());
  let had_types = full.modules().any(|m| {
    m.maybe_types_dependency().is_some()
      || m.dependencies().values().any(|d| !d.maybe_type.is_none())
  });
  let kept_modules = pruned.modules().count();
  if removed > 0 {
    o.label("pruning-removed-entries");
  }
  if had_types {
    o.label("had-type-resolutions");
  }
  if !full.redirects.is_empty() {
    o.label("has-redirects");
  }
  if full.module_errors().next().is_some() {
    o.label("has-errors");
  }
  if !case.imports.is_empty() {
    o.label("has-configured-imports");
  }
  if pv.is_err() {
    o.label("code-invalid");
  }
  o.label(format!("modules-kept-{}", kept_modules.min(6)));
  o.nontrivial = (removed > 0 || had_types) && kept_modules >= 2;
  o
}
