//! C20 — module text and original bytes are faithful to what the loader
//! supplied. Oracle: reference decoder (`decode_ref`), written from the
//! WHATWG decoding rules for the handful of labels generated here.

use crate::harness::{build_into, BuildEnv, Schedule, Served, WorldLoader};
use crate::runner::{Outcome, PropSpec, Tier};
use crate::world::Opts;
use deno_graph::{Module, ModuleGraph, ModuleSpecifier};
use proptest::prelude::*;
use serde::{Deserialize, Serialize};
use std::collections::{BTreeMap, HashMap};

#[derive(Clone, Debug, Serialize, Deserialize)]
pub struct Case {
  /// code points of the payload text
  pub text: Vec<u32>,
  /// 0 utf-8, 1 utf-16le, 2 utf-16be, 3 windows-1252
  pub encoding: u8,
  /// 0 none, 1 BOM of the encoding, 2 UTF-8 BOM, 3 UTF-16LE BOM, 4 UTF-16BE BOM
  pub bom: u8,
  /// bytes inserted after encoding: (position, byte)
  pub corrupt: Vec<(u16, u8)>,
  pub truncate: bool,
  /// index into LABELS (None = no charset parameter)
  pub charset: Option<u8>,
  /// 0 local .json root, 1 remote .json root, 2 local .ts root,
  /// 3 remote .ts root, 4 json imported with `type: "json"` (local),
  /// 5 json imported with attribute (remote), 6 a file of a JSR package whose
  /// version manifest embeds module information and whose content is not in
  /// the cache (deferred content load), 7 the same file without embedded
  /// information; 6 and 7 fall back to 3 unless the bytes are plain UTF-8
  /// (with or without BOM) and no charset is given
  pub shape: u8,
}

pub const LABELS: &[&str] = &[
  "utf-8",
  "UTF-8",
  "utf8",
  " utf-8",
  "utf-16le",
  "UTF-16LE",
  "utf-16",
  "utf-16be",
  "iso-8859-1",
  "latin1",
  "windows-1252",
  "us-ascii",
  "utf-32le",
  "bogus",
  "",
];

const CHARS: &[u32] = &[
  0x61, 0x62, 0x7a, 0x20, 0x31, 0x5f, 0xe9, 0xfc, 0x20ac, 0x65e5, 0x1f600,
  0xfeff, 0xfffd, 0x0a, 0x0d, 0x80, 0x9f, 0xff, 0x2028,
];

pub fn spec() -> PropSpec<Case> {
  PropSpec {
    id: "C20",
    strategy: |_tier| {
      (
        proptest::collection::vec(
          prop_oneof![
            4 => (0..CHARS.len()).prop_map(|i| CHARS[i]),
            1 => 0x20u32..0x7f,
          ],
          0..12,
        ),
        0..4u8,
        prop_oneof![4 => Just(0u8), 2 => Just(1u8), 1 => Just(2u8), 1 => Just(3u8), 1 => Just(4u8)],
        proptest::collection::vec((any::<u16>(), prop_oneof![Just(0xffu8), Just(0xc3), Just(0xed), Just(0xa0), Just(0x80), Just(0xd8), Just(0x00), Just(0xfe)]), 0..3),
        proptest::bool::weighted(0.15),
        proptest::option::weighted(0.6, 0..(LABELS.len() as u8)),
        0..8u8,
      )
        .prop_map(|(text, encoding, bom, corrupt, truncate, charset, shape)| Case {
          text,
          encoding,
          bom,
          corrupt,
          truncate,
          charset,
          shape,
        })
        .boxed()
    },
    check,
    cases: |tier| tier.pick(200_000, 4_000_000),
    rule: "payload text over ASCII, Latin-1, BMP, astral, U+FEFF, U+FFFD, C1 and line-separator characters, encoded as UTF-8 / UTF-16LE / UTF-16BE / windows-1252, with no / matching / mismatching BOM, 0-2 inserted invalid bytes and optional truncation of the last byte; served with no charset or one of 15 labels (case, whitespace, aliases, unsupported) as local or remote JSON root, TypeScript root (payload inside a comment and a string literal) or attributed JSON import (every fourth remote case through the cache-bypassing retry after a refused first answer), or (plain UTF-8 with or without BOM) as a file of a JSR package with / without module information embedded in the version manifest and nothing cached; non-trivial = the bytes contain a non-ASCII byte or a BOM, or the effective charset is not UTF-8; distinct = distinct case JSON",
    assumptions: &[
      "reference decoder covers exactly the generated labels (WHATWG label matching: ASCII case-insensitive, surrounding whitespace ignored; utf-16 = utf-16le; iso-8859-1, latin1, us-ascii = windows-1252)",
      "a quoted charset parameter (charset=\"utf-8\") is not generated",
      "payloads that do not parse as TypeScript yield a parse error entry and only the byte clauses are checked for them",
    ],
    crash_is_violation: false,
    extra: None,
    level: "exploration",
  }
}

pub fn encode(case: &Case) -> Vec<u8> {
  let text: String = case
    .text
    .iter()
    .filter_map(|c| char::from_u32(*c))
    .collect();
  let payload = match case.shape {
    2 | 3 | 6 | 7 => {
      // a TypeScript program carrying the text in a comment and a string
      let safe: String = text
        .chars()
        .map(|c| if matches!(c, '\n' | '\r' | '\u{2028}' | '\\' | '"') { ' ' } else { c })
        .collect();
      format!("// {safe}\nexport const a = \"{safe}\";\n")
    }
    _ => text,
  };
  let mut out: Vec<u8> = Vec::new();
  match case.bom {
    1 => match case.encoding {
      0 => out.extend([0xef, 0xbb, 0xbf]),
      1 => out.extend([0xff, 0xfe]),
      2 => out.extend([0xfe, 0xff]),
      _ => {}
    },
    2 => out.extend([0xef, 0xbb, 0xbf]),
    3 => out.extend([0xff, 0xfe]),
    4 => out.extend([0xfe, 0xff]),
    _ => {}
  }
  match case.encoding {
    0 => out.extend(payload.as_bytes()),
    1 => {
      for u in payload.encode_utf16() {
        out.extend(u.to_le_bytes());
      }
    }
    2 => {
      for u in payload.encode_utf16() {
        out.extend(u.to_be_bytes());
      }
    }
    _ => {
      for c in payload.chars() {
        out.push(if (c as u32) < 0x100 { c as u32 as u8 } else { b'?' });
      }
    }
  }
  for (pos, b) in &case.corrupt {
    let p = crate::runner::idx(*pos, out.len() + 1);
    out.insert(p, *b);
  }
  if case.truncate && !out.is_empty() {
    out.pop();
  }
  out
}

const W1252: [u32; 32] = [
  0x20ac, 0x81, 0x201a, 0x0192, 0x201e, 0x2026, 0x2020, 0x2021, 0x02c6, 0x2030,
  0x0160, 0x2039, 0x0152, 0x8d, 0x017d, 0x8f, 0x90, 0x2018, 0x2019, 0x201c,
  0x201d, 0x2022, 0x2013, 0x2014, 0x02dc, 0x2122, 0x0161, 0x203a, 0x0153, 0x9d,
  0x017e, 0x0178,
];

/// The UTF-16 decoder of the WHATWG Encoding Standard (section 14.2.1),
/// transcribed step by step; errors become U+FFFD.
fn decode_utf16(bytes: &[u8], le: bool) -> String {
  let mut out = String::new();
  let mut lead_byte: Option<u8> = None;
  let mut lead_surrogate: Option<u16> = None;
  let mut queue: std::collections::VecDeque<u8> = bytes.iter().copied().collect();
  loop {
    let Some(byte) = queue.pop_front() else {
      // end of queue
      if lead_byte.is_some() || lead_surrogate.is_some() {
        out.push('\u{fffd}');
      }
      return out;
    };
    let Some(first) = lead_byte.take() else {
      lead_byte = Some(byte);
      continue;
    };
    let unit = if le {
      u16::from_le_bytes([first, byte])
    } else {
      u16::from_be_bytes([first, byte])
    };
    if let Some(lead) = lead_surrogate.take() {
      if (0xdc00..=0xdfff).contains(&unit) {
        let c = 0x10000 + (((lead as u32) - 0xd800) << 10) + ((unit as u32) - 0xdc00);
        out.push(char::from_u32(c).unwrap());
        continue;
      }
      // restore the two bytes of the code unit and signal an error
      queue.push_front(byte);
      queue.push_front(first);
      out.push('\u{fffd}');
      continue;
    }
    if (0xd800..=0xdbff).contains(&unit) {
      lead_surrogate = Some(unit);
      continue;
    }
    if (0xdc00..=0xdfff).contains(&unit) {
      out.push('\u{fffd}');
      continue;
    }
    out.push(char::from_u32(unit as u32).unwrap());
  }
}

/// Reference decoding. `None` = unsupported label.
pub fn decode_ref(bytes: &[u8], label: &str) -> Option<String> {
  let l = label
    .trim_matches(|c| matches!(c, ' ' | '\t' | '\n' | '\x0c' | '\r'))
    .to_ascii_lowercase();
  let mut text = match l.as_str() {
    "utf-8" | "utf8" | "unicode-1-1-utf-8" => {
      String::from_utf8_lossy(bytes).into_owned()
    }
    "utf-16le" | "utf-16" => decode_utf16(bytes, true),
    "utf-16be" => decode_utf16(bytes, false),
    "iso-8859-1" | "latin1" | "windows-1252" | "us-ascii" | "ascii" => bytes
      .iter()
      .map(|b| {
        let c = if (0x80..0xa0).contains(b) {
          W1252[(*b - 0x80) as usize]
        } else {
          *b as u32
        };
        char::from_u32(c).unwrap()
      })
      .collect(),
    _ => return None,
  };
  if text.starts_with('\u{feff}') {
    text.drain(..3);
  }
  Some(text)
}

/// shapes 6 / 7: the payload as `mod.ts` of a registry package
fn check_jsr(case: &Case, bytes: &[u8], embedded: bool) -> Outcome {
  use crate::registry::{self, Exports, RegFile, RegPackage, RegVersion, Registry};
  let mut o = Outcome::default();
  let text = String::from_utf8(bytes.to_vec()).expect("plain UTF-8");
  let mut files = BTreeMap::new();
  files.insert(
    "/mod.ts".to_string(),
    RegFile {
      lang: crate::world::Lang::Ts,
      items: vec![],
      text: Some(text),
    },
  );
  let reg = Registry {
    packages: vec![RegPackage {
      name: "@s/a".into(),
      versions: vec![RegVersion {
        version: "1.0.0".into(),
        yanked: false,
        created_day: None,
        exports: Exports::Single("./mod.ts".into()),
        files,
        module_graph: if embedded { 2 } else { 0 },
        lockfile_checksum: false,
      }],
    }],
  };
  let mut served = registry::materialize(&reg, true).served;
  let main = ModuleSpecifier::parse("file:///main.ts").unwrap();
  served.insert(
    main.clone(),
    Served::Module {
      bytes: b"import \"jsr:@s/a@1.0.0\";\n".to_vec().into(),
      headers: None,
      final_spec: main.clone(),
    },
  );
  let mut loader = WorldLoader::new(served);
  // nothing is cached: with embedded information the content is loaded later
  loader.cache = Some(Default::default());
  let opts = Opts::default();
  let mut graph = ModuleGraph::new(opts.graph_kind());
  build_into(
    &mut graph,
    vec![main],
    vec![],
    BuildEnv {
      loader: &loader,
      opts: &opts,
      locker: None,
      npm: None,
      jsr_version_resolver: None,
      prefer_cached: false,
    },
    &Schedule::default(),
    false,
  )
  .expect("ungated build");
  let spec = ModuleSpecifier::parse("https://jsr.io/@s/a/1.0.0/mod.ts").unwrap();
  let expected = decode_ref(bytes, "utf-8").expect("utf-8 decodes");
  let tag = if embedded { "jsr-embedded-info" } else { "jsr-parsed" };
  match graph.modules().find(|m| m.specifier() == &spec) {
    Some(Module::Js(js)) => {
      let source = &js.source;
      if source.text.as_ref() != expected.as_str() {
        o.violate(
          format!("C20/text-differs/js/{tag}"),
          format!("bytes {bytes:02x?}\n stored   {:?}\n expected {:?}", source.text, expected),
        );
      }
      if let Some(orig) = source.try_get_original_bytes() {
        if orig.as_ref() != bytes {
          o.violate(
            format!("C20/original-bytes-differ/js/{tag}/{:?}", source.decoded_kind),
            format!("loader supplied {bytes:02x?}\n returned        {:02x?}", orig.as_ref()),
          );
        }
        o.label("original-bytes-available");
      } else {
        o.label("original-bytes-none");
      }
      let ser = serde_json::to_value(graph.get(&spec).unwrap()).unwrap();
      let size = ser.get("size").and_then(|s| s.as_u64());
      if size != Some(source.text.len() as u64) {
        o.violate(
          "C20/size-is-not-text-length",
          format!("size {size:?}, text length {}", source.text.len()),
        );
      }
    }
    Some(other) => o.violate("C20/unexpected-module-kind", format!("{other:?}")),
    None => match graph.module_errors().find(|e| e.specifier() == &spec) {
      Some(e) if matches!(e.as_kind(), deno_graph::ModuleErrorKind::Parse { .. }) => o.label("parse-error"),
      Some(e) => o.violate(format!("C20/decodable-input-rejected/{tag}"), format!("{e}")),
      None => o.violate("C20/no-entry", format!("{spec}")),
    },
  }
  let non_ascii = bytes.iter().any(|b| *b >= 0x80);
  if non_ascii {
    o.label("non-ascii-bytes");
  }
  o.label(format!("shape-{}", case.shape));
  o.nontrivial = non_ascii;
  o
}

pub fn check(case: &Case, _tier: Tier) -> Outcome {
  let mut o = Outcome::default();
  let case = &{
    let mut c = case.clone();
    if c.shape >= 6 {
      let plain = c.encoding == 0 && c.corrupt.is_empty() && !c.truncate && c.bom <= 2 && c.charset.is_none();
      if !plain {
        c.shape = 3;
      }
    }
    c
  };
  let bytes = encode(case);
  if case.shape >= 6 {
    return check_jsr(case, &bytes, case.shape == 6);
  }
  let remote = matches!(case.shape, 1 | 3 | 5);
  let (url, mime) = match case.shape {
    0 => ("file:///m.json", "application/json"),
    1 => ("https://h.test/m.json", "application/json"),
    2 => ("file:///m.ts", "application/typescript"),
    3 => ("https://h.test/m.ts", "application/typescript"),
    4 => ("file:///m.json", "application/json"),
    _ => ("https://h.test/m.json", "application/json"),
  };
  let label = case.charset.map(|i| LABELS[i as usize % LABELS.len()]);
  // local files carry headers only when a charset is to be given
  let headers: Option<HashMap<String, String>> = match (remote, label) {
    (_, Some(l)) => Some(HashMap::from([(
      "content-type".to_string(),
      format!("{mime}; charset={l}"),
    )])),
    (true, None) => Some(HashMap::from([(
      "content-type".to_string(),
      mime.to_string(),
    )])),
    (false, None) => None,
  };
  let spec = ModuleSpecifier::parse(url).unwrap();
  let mut served = BTreeMap::new();
  served.insert(
    spec.clone(),
    Served::Module {
      bytes: bytes.clone().into(),
      headers,
      final_spec: spec.clone(),
    },
  );
  let root = if case.shape >= 4 {
    let main = if remote {
      "https://h.test/main.ts"
    } else {
      "file:///main.ts"
    };
    let main = ModuleSpecifier::parse(main).unwrap();
    served.insert(
      main.clone(),
      Served::Module {
        bytes: b"import d from \"./m.json\" with { type: \"json\" };\n"
          .to_vec()
          .into(),
        headers: None,
        final_spec: main.clone(),
      },
    );
    main
  } else {
    spec.clone()
  };
  let mut loader = WorldLoader::new(served);
  // every fourth remote case: the first answer is refused as a checksum
  // mismatch (a stale cached copy), so the module comes from the one
  // cache-bypassing retry - with the same headers
  if remote && case.text.len() % 4 == 1 {
    loader
      .faults
      .insert((url.to_string(), 0), crate::harness::Fault::ChecksumError);
    o.label("obtained-through-the-retry-after-a-checksum-error");
  }
  let opts = Opts::default();
  let mut graph = ModuleGraph::new(opts.graph_kind());
  build_into(
    &mut graph,
    vec![root],
    vec![],
    BuildEnv {
      loader: &loader,
      opts: &opts,
      locker: None,
      npm: None,
      jsr_version_resolver: None,
      prefer_cached: false,
    },
    &Schedule::default(),
    false,
  )
  .expect("ungated build");

  // effective charset
  let effective: String = match label {
    Some(l) => l.to_string(),
    None => {
      if !remote && bytes.starts_with(&[0xff, 0xfe]) {
        "utf-16le".into()
      } else if !remote && bytes.starts_with(&[0xfe, 0xff]) {
        "utf-16be".into()
      } else {
        "utf-8".into()
      }
    }
  };
  let expected = decode_ref(&bytes, &effective);
  let tag = format!(
    "{}/{}",
    if remote { "remote" } else { "local" },
    effective.trim().to_ascii_lowercase()
  );
  let entry_mod = graph.modules().find(|m| m.specifier() == &spec);
  let entry_err = graph.module_errors().find(|e| e.specifier() == &spec);
  match (&expected, entry_mod, entry_err) {
    (None, Some(m), _) => o.violate(
      format!("C20/unsupported-charset-admitted/{tag}"),
      format!("charset {effective:?} is not decodable but {} is a module", m.specifier()),
    ),
    (None, None, Some(e)) => {
      if !matches!(
        e.as_kind(),
        deno_graph::ModuleErrorKind::Load {
          err: deno_graph::ModuleLoadError::Decode(_),
          ..
        }
      ) {
        o.violate(
          format!("C20/unsupported-charset-not-a-decode-error/{tag}"),
          format!("{e}"),
        );
      }
    }
    (Some(text), Some(m), _) => {
      let (source, kind) = match m {
        Module::Js(js) => (&js.source, "js"),
        Module::Json(j) => (&j.source, "json"),
        other => {
          o.violate("C20/unexpected-module-kind", format!("{other:?}"));
          return o;
        }
      };
      if source.text.as_ref() != text.as_str() {
        o.violate(
          format!("C20/text-differs/{kind}/{tag}"),
          format!(
            "bytes {bytes:02x?}\n stored   {:?}\n expected {:?}",
            source.text, text
          ),
        );
      }
      if let Some(orig) = source.try_get_original_bytes() {
        if orig.as_ref() != bytes.as_slice() {
          o.violate(
            format!("C20/original-bytes-differ/{kind}/{tag}/{:?}", source.decoded_kind),
            format!("loader supplied {bytes:02x?}\n returned        {:02x?}", orig.as_ref()),
          );
        }
        o.label("original-bytes-available");
      } else {
        o.label("original-bytes-none");
      }
      let ser = serde_json::to_value(m).unwrap();
      let size = ser.get("size").and_then(|s| s.as_u64());
      if size != Some(source.text.len() as u64) {
        o.violate(
          "C20/size-is-not-text-length",
          format!("size {size:?}, text length {}", source.text.len()),
        );
      }
    }
    (Some(text), None, Some(e)) => {
      // only a parse error of a TypeScript payload is acceptable
      let parse = matches!(e.as_kind(), deno_graph::ModuleErrorKind::Parse { .. });
      if !(parse && matches!(case.shape, 2 | 3)) {
        o.violate(
          format!("C20/decodable-input-rejected/{tag}"),
          format!("expected text {text:?}, entry is {e}"),
        );
      } else {
        o.label("parse-error");
      }
    }
    (_, None, None) => o.violate("C20/no-entry", format!("{spec}")),
  }
  let non_ascii = bytes.iter().any(|b| *b >= 0x80);
  if non_ascii {
    o.label("non-ascii-bytes");
  }
  o.label(format!("charset-{}", effective.trim().to_ascii_lowercase()));
  o.label(format!("shape-{}", case.shape));
  o.nontrivial = non_ascii || !matches!(effective.trim().to_ascii_lowercase().as_str(), "utf-8" | "utf8");
  o
}
