//! C05 — known checksums are always enforced; new ones are recorded
//! faithfully. Oracle: invariants over the loader log (every load call with
//! its checksum) and the Locker call log, against the expected-checksum table
//! derived from the lockfile image and the registry manifests.

use crate::harness::{
  build_into, parse_roots, BuildEnv, LockCall, RecLocker, Schedule, Served,
  WorldLoader,
};
use crate::props::c07::registry_strategy;
use crate::registry::{self, Registry, REGISTRY};
use crate::runner::{idx, Outcome, PropSpec, Tier};
use crate::world::{Item, Lang, Opts};
use deno_graph::ModuleGraph;
use proptest::prelude::*;
use serde::{Deserialize, Serialize};
use std::collections::{BTreeMap, BTreeSet, HashMap};
use url::Url;

pub const REMOTES: &[&str] = &[
  "https://h.test/r0.ts",
  "https://h.test/r1.ts",
  "https://h.test/r2.js",
  "https://h.test/r3.d.ts",
  "https://h.test/r4.ts",
  "http://p.test/r5.ts",
];
const REDIR: &str = "https://h.test/redir";

#[derive(Clone, Debug, Serialize, Deserialize)]
pub struct RemoteMod {
  /// imports: (kind 0 static, 1 dynamic, 2 text asset, 3 type-only, target)
  pub imports: Vec<(u8, u16)>,
  /// 0 absent, 1 matching, 2 mismatching lockfile entry
  pub lock: u8,
  pub bom: bool,
  /// served as UTF-16LE with a charset parameter
  #[serde(default)]
  pub utf16: bool,
}

#[derive(Clone, Debug, Serialize, Deserialize)]
pub struct Case {
  pub remotes: Vec<RemoteMod>,
  /// what REDIR redirects to and its lockfile state
  pub redir_to: u16,
  pub redir_lock: u8,
  pub registry: Registry,
  /// per (package, version) in registry order: manifest lockfile state
  pub manifest_lock: Vec<u8>,
  /// registry files (by global index) served with tampered bytes
  pub tampered: Vec<u16>,
  pub with_module_graph: bool,
  /// registry files (by global index) that answer the cache-only probe
  pub cached_files: Vec<u16>,
  pub main: Vec<(u8, u16, u16, u16)>,
  pub kind: u8,
}

pub fn spec() -> PropSpec<Case> {
  PropSpec {
    id: "C05",
    strategy: |_tier| {
      (
        proptest::collection::vec(
          (
            proptest::collection::vec((0..4u8, any::<u16>()), 0..=3),
            0..3u8,
            proptest::bool::weighted(0.2),
            proptest::bool::weighted(0.15),
          )
            .prop_map(|(imports, lock, bom, utf16)| RemoteMod { imports, lock, bom, utf16 }),
          REMOTES.len(),
        ),
        any::<u16>(),
        0..3u8,
        registry_strategy(),
        proptest::collection::vec(0..3u8, 12),
        proptest::collection::vec(any::<u16>(), 0..=2),
        any::<bool>(),
        proptest::collection::vec(any::<u16>(), 0..=4),
        proptest::collection::vec((0..5u8, any::<u16>(), any::<u16>(), any::<u16>()), 1..=6),
        prop_oneof![3 => Just(0u8), 1 => Just(1u8), 1 => Just(2u8)],
      )
        .prop_map(
          |(remotes, redir_to, redir_lock, registry, manifest_lock, tampered, with_module_graph, cached_files, main, kind)| Case {
            remotes,
            redir_to,
            redir_lock,
            registry,
            manifest_lock,
            tampered,
            with_module_graph,
            cached_files,
            main,
            kind,
          },
        )
        .boxed()
    },
    check,
    cases: |tier| tier.pick(40_000, 800_000),
    rule: "a remote entry module importing remote modules (static, dynamic, `type: \"text\"` asset, type-only, through a redirecting URL, a declaration file, with or without a UTF-8 BOM), jsr: requirements and https://jsr.io/ URLs of a generated registry (with or without embedded module information, with a cache image for the cache-only probe); lockfile image per remote URL and per version manifest in {absent, matching, mismatching}; registry files optionally served with tampered bytes; non-trivial = a resource with a known checksum is reached on a non-static path (dynamic, asset, redirect, registry sub-path, direct registry URL) or a resource is tampered / mismatching; distinct = distinct case JSON",
    assumptions: &[
      "the harness loader verifies LoadOptions::maybe_checksum against the bytes it serves (the documented loader responsibility)",
      "the cache-only existence probe of version manifests (prefer_cached_jsr_versions) is not used here",
      "a registry file that is missing from its version manifest is not generated",
    ],
    crash_is_violation: false,
    extra: None,
    level: "exploration",
  }
}

struct Built {
  served: BTreeMap<Url, Served>,
  /// url -> sha of the bytes actually served
  served_sha: BTreeMap<String, String>,
  /// url -> expected checksum the library knows
  expected: BTreeMap<String, String>,
  locker: RecLocker,
  registry_files: Vec<String>,
  cache: BTreeSet<Url>,
}

fn remote_source(m: &RemoteMod, i: usize, case: &Case) -> Vec<u8> {
  let mut items: Vec<Item> = Vec::new();
  for (kind, t) in &m.imports {
    let n = REMOTES.len() + 1;
    let ti = idx(*t, n);
    let spec = if ti == REMOTES.len() {
      REDIR.to_string()
    } else {
      REMOTES[ti].to_string()
    };
    if spec == REMOTES[i] {
      continue;
    }
    let _ = case;
    items.push(match kind {
      1 => Item::Dynamic {
        spec,
        attr: None,
        types: None,
      },
      2 => Item::Import {
        spec,
        attr: Some("text".into()),
        types: None,
      },
      3 => Item::ImportType { spec },
      _ => Item::Import {
        spec,
        attr: None,
        types: None,
      },
    });
  }
  items.push(Item::Filler);
  let lang = crate::world::lang_for(REMOTES[i]);
  let lang = if lang == Lang::Js { Lang::Js } else { lang };
  let items: Vec<Item> = items
    .into_iter()
    .filter(|it| !(it.ts_only() && !lang.is_ts()))
    .collect();
  let text = crate::world::render(lang, &items);
  let mut bytes = Vec::new();
  if m.utf16 {
    if m.bom {
      bytes.extend([0xff, 0xfe]);
    }
    for u in text.encode_utf16() {
      bytes.extend(u.to_le_bytes());
    }
    return bytes;
  }
  if m.bom {
    bytes.extend([0xef, 0xbb, 0xbf]);
  }
  bytes.extend(text.as_bytes());
  bytes
}

fn build_world(case: &Case) -> Built {
  let mat = registry::materialize(&case.registry, case.with_module_graph);
  let mut served = mat.served;
  let mut served_sha = mat.sha;
  let mut expected: BTreeMap<String, String> = BTreeMap::new();
  let mut locker = RecLocker::default();
  // registry files: the manifest knows the honest checksum
  let mut registry_files = Vec::new();
  for p in &case.registry.packages {
    for v in &p.versions {
      for path in v.files.keys() {
        let u = registry::file_url(&p.name, &v.version, path);
        expected.insert(u.clone(), served_sha[&u].clone());
        registry_files.push(u);
      }
    }
  }
  for t in &case.tampered {
    if registry_files.is_empty() {
      break;
    }
    let u = registry_files[idx(*t, registry_files.len())].clone();
    let url = Url::parse(&u).unwrap();
    if let Some(Served::Module { bytes, .. }) = served.get(&url).cloned() {
      let mut b = bytes.to_vec();
      b.extend(b"\n// tampered\n");
      served_sha.insert(u.clone(), registry::sha256_hex(&b));
      served.insert(
        url.clone(),
        Served::Module {
          bytes: b.into(),
          headers: None,
          final_spec: url,
        },
      );
    }
  }
  let mut cache = BTreeSet::new();
  for c in &case.cached_files {
    if registry_files.is_empty() {
      break;
    }
    cache.insert(Url::parse(&registry_files[idx(*c, registry_files.len())]).unwrap());
  }
  // version manifests
  let mut k = 0;
  for p in &case.registry.packages {
    for v in &p.versions {
      let u = format!("{REGISTRY}{}/{}_meta.json", p.name, v.version);
      let state = case.manifest_lock.get(k).copied().unwrap_or(0);
      k += 1;
      let nv = format!("{}@{}", p.name, v.version);
      match state {
        1 => {
          let c = served_sha[&u].clone();
          locker.manifests.insert(nv, c.clone());
          expected.insert(u, c);
        }
        2 => {
          locker.manifests.insert(nv, "bad-manifest-checksum".into());
          expected.insert(u, "bad-manifest-checksum".into());
        }
        _ => {}
      }
    }
  }
  // remote modules
  for (i, m) in case.remotes.iter().enumerate() {
    let url = Url::parse(REMOTES[i]).unwrap();
    let bytes = remote_source(m, i, case);
    let sha = registry::sha256_hex(&bytes);
    served_sha.insert(url.to_string(), sha.clone());
    served.insert(
      url.clone(),
      Served::Module {
        bytes: bytes.into(),
        headers: m.utf16.then(|| {
          HashMap::from([(
            "content-type".to_string(),
            format!(
              "{}; charset=utf-16le",
              if REMOTES[i].ends_with(".js") { "text/javascript" } else { "application/typescript" }
            ),
          )])
        }),
        final_spec: url.clone(),
      },
    );
    match m.lock {
      1 => {
        locker.remote.insert(url.to_string(), sha.clone());
        expected.insert(url.to_string(), sha);
      }
      2 => {
        locker.remote.insert(url.to_string(), "bad-remote-checksum".into());
        expected.insert(url.to_string(), "bad-remote-checksum".into());
      }
      _ => {}
    }
  }
  let target = REMOTES[idx(case.redir_to, REMOTES.len())];
  served.insert(
    Url::parse(REDIR).unwrap(),
    Served::Redirect(Url::parse(target).unwrap()),
  );
  if case.redir_lock != 0 {
    locker.remote.insert(REDIR.into(), "checksum-of-a-redirecting-url".into());
    expected.insert(REDIR.into(), "checksum-of-a-redirecting-url".into());
  }
  // main module
  let mut items = Vec::new();
  for (kind, a, b, c) in &case.main {
    let spec = match kind {
      0 | 1 => {
        let n = REMOTES.len() + 1;
        let ti = idx(*a, n);
        if ti == REMOTES.len() {
          REDIR.to_string()
        } else {
          REMOTES[ti].to_string()
        }
      }
      2 | 3 => format!(
        "jsr:{}@{}{}",
        crate::props::c07::NAMES[idx(*a, 4)],
        ["^1", "*", "1", "^2"][idx(*b, 4)],
        ["", "/sub", "/deep"][idx(*c, 3)]
      ),
      _ => {
        if registry_files.is_empty() {
          REMOTES[0].to_string()
        } else {
          registry_files[idx(*a, registry_files.len())].clone()
        }
      }
    };
    items.push(if kind % 2 == 1 {
      Item::Dynamic {
        spec,
        attr: None,
        types: None,
      }
    } else {
      Item::Import {
        spec,
        attr: None,
        types: None,
      }
    });
  }
  let main = Url::parse("https://h.test/main.ts").unwrap();
  let bytes = crate::world::render(Lang::Ts, &items).into_bytes();
  served_sha.insert(main.to_string(), registry::sha256_hex(&bytes));
  served.insert(
    main.clone(),
    Served::Module {
      bytes: bytes.into(),
      headers: None,
      final_spec: main,
    },
  );
  Built {
    served,
    served_sha,
    expected,
    locker,
    registry_files,
    cache,
  }
}

fn is_registry_file(u: &str) -> bool {
  u.starts_with(REGISTRY) && !u.ends_with("meta.json")
}

pub fn check(case: &Case, _tier: Tier) -> Outcome {
  let mut o = Outcome::default();
  let mut case = case.clone();
  if case.with_module_graph {
    for p in case.registry.packages.iter_mut() {
      for v in p.versions.iter_mut() {
        v.module_graph = 1;
      }
    }
  }
  let case = &case;
  let b = build_world(case);
  let mut loader = WorldLoader::new(b.served.clone());
  loader.cache = Some(b.cache.clone());
  let mut locker = RecLocker {
    remote: b.locker.remote.clone(),
    manifests: b.locker.manifests.clone(),
    calls: Default::default(),
  };
  let opts = Opts {
    kind: case.kind,
    unstable_text: true,
    ..Default::default()
  };
  let mut graph = ModuleGraph::new(opts.graph_kind());
  build_into(
    &mut graph,
    parse_roots(&["https://h.test/main.ts".to_string()]),
    vec![],
    BuildEnv {
      loader: &loader,
      opts: &opts,
      locker: Some(&mut locker),
      npm: None,
      jsr_version_resolver: None,
      prefer_cached: false,
    },
    &Schedule::default(),
    false,
  )
  .expect("ungated build");
  let full_log = loader.log.borrow().clone();
  // a cache busting restart repeats the whole build: judge the last pass
  let last_start = full_log
    .iter()
    .rposition(|c| c.spec == "https://h.test/main.ts")
    .unwrap_or(0);
  let passes = full_log.iter().filter(|c| c.spec == "https://h.test/main.ts").count();
  let log: Vec<_> = full_log[last_start..].to_vec();
  let entries = crate::obs::entries(&graph, false);
  let mut nontrivial = false;

  // (a) every load of a resource with a known checksum presents it
  for c in &full_log {
    let content_call = c.cache != "only" || is_registry_file(&c.spec);
    if !content_call {
      continue;
    }
    if let Some(exp) = b.expected.get(&c.spec) {
      let path_kind = if is_registry_file(&c.spec) {
        "registry-file"
      } else if c.spec.ends_with("_meta.json") {
        "version-manifest"
      } else {
        "remote"
      };
      if c.checksum.as_deref() != Some(exp.as_str()) {
        o.violate(
          format!(
            "C05/load-without-known-checksum/{path_kind}/{}{}{}",
            c.cache,
            if c.ensure_cached { "/asset" } else { "" },
            if c.in_dynamic_branch { "/dynamic" } else { "" }
          ),
          format!("{c:?}: expected checksum {exp}"),
        );
      }
      if c.in_dynamic_branch || c.ensure_cached || path_kind != "remote" {
        nontrivial = true;
      }
    }
  }
  // (b) rejected content is never admitted; retry policy
  for (u, exp) in &b.expected {
    let Some(actual) = b.served_sha.get(u) else { continue };
    let content_calls: Vec<_> = log
      .iter()
      .filter(|c| &c.spec == u && (c.cache != "only" || is_registry_file(u)))
      .collect();
    if content_calls.is_empty() {
      continue;
    }
    // the cache-only probe of a file that is not cached consumes no content
    let consumed = content_calls.iter().any(|c| {
      c.cache != "only" || Url::parse(u).map(|x| b.cache.contains(&x)).unwrap_or(false)
    });
    if !consumed {
      continue;
    }
    if actual != exp {
      nontrivial = true;
      if u.ends_with("_meta.json") {
        // every requirement resolved through this manifest must be an error
        continue;
      }
      match entries.get(u) {
        Some(s) if s.starts_with("module:") => o.violate(
          format!(
            "C05/rejected-content-admitted/{}",
            if is_registry_file(u) { "registry-file" } else { "remote" }
          ),
          format!("{u}: served bytes do not match the known checksum but the graph has {s}"),
        ),
        Some(s) => {
          if !s.to_lowercase().contains("integrity") && !s.contains("checksum") {
            o.violate(
              "C05/rejected-content-not-an-integrity-error",
              format!("{u}: {s}"),
            );
          }
        }
        None => {}
      }
      let uses = content_calls.iter().filter(|c| c.cache == "use").count();
      let reloads = content_calls.iter().filter(|c| c.cache == "reload").count();
      if is_registry_file(u) {
        if reloads != 0 {
          o.violate("C05/registry-file-retried", format!("{u}: {content_calls:?}"));
        }
      } else if reloads > uses || reloads > 1 {
        o.violate("C05/more-than-one-retry", format!("{u}: {content_calls:?}"));
      } else if reloads == 0 {
        o.violate("C05/no-cache-bypassing-retry", format!("{u}: {content_calls:?}"));
      }
    }
  }
  // (c) a checksummed URL that redirects is rejected
  if case.redir_lock != 0 && log.iter().any(|c| c.spec == REDIR) {
    nontrivial = true;
    match entries.get(REDIR) {
      Some(s) if s.starts_with("error:") => {}
      other => o.violate(
        "C05/checksummed-redirect-accepted",
        format!("{REDIR} has a lockfile checksum and redirects; graph entry: {other:?}, redirect: {:?}", graph.redirects.get(&Url::parse(REDIR).unwrap())),
      ),
    }
  }
  // (d)/(e) lockfile writes
  let calls = locker.calls.borrow().clone();
  let mut set_remote: BTreeMap<String, Vec<String>> = BTreeMap::new();
  let mut set_manifest: BTreeMap<String, Vec<String>> = BTreeMap::new();
  for c in &calls {
    match c {
      LockCall::SetRemote(u, v) => set_remote.entry(u.clone()).or_default().push(v.clone()),
      LockCall::SetManifest(nv, v) => set_manifest.entry(nv.clone()).or_default().push(v.clone()),
      _ => {}
    }
  }
  for (u, vals) in &set_remote {
    if b.locker.remote.contains_key(u) {
      o.violate("C05/existing-lockfile-entry-overwritten/remote", format!("{u}: {vals:?}"));
    }
    // recording the same value twice is harmless; two different values for
    // one resource cannot both be "the bytes used"
    if vals.iter().any(|v| v != &vals[0]) {
      o.violate("C05/checksum-recorded-with-different-values", format!("{u}: {vals:?}"));
    }
    let Some(actual) = b.served_sha.get(u) else {
      o.violate("C05/checksum-recorded-for-unknown-resource", format!("{u}"));
      continue;
    };
    if &vals[0] != actual {
      let bom = REMOTES
        .iter()
        .position(|r| r == u)
        .map(|i| case.remotes[i].bom)
        .unwrap_or(false);
      let utf16 = REMOTES
        .iter()
        .position(|r| r == u)
        .map(|i| case.remotes[i].utf16)
        .unwrap_or(false);
      o.violate(
        format!("C05/recorded-checksum-is-not-of-served-bytes{}{}", if bom { "/bom" } else { "" }, if utf16 { "/utf-16" } else { "" }),
        format!("{u}: recorded {}, sha256 of the served bytes is {actual}", vals[0]),
      );
    }
    // The statement demands a record for every new remote non-declaration
    // module; it neither demands nor forbids one for declaration files or
    // for registry files (whose integrity the version manifest covers), so
    // those are only required to carry the right value (checked above).
    if u.ends_with(".d.ts") {
      o.label("checksum-recorded-for-declaration-file");
    }
    if u.starts_with(REGISTRY) {
      o.label("remote-checksum-recorded-for-registry-file");
    }
  }
  // every new remote non-declaration module has its checksum recorded
  for m in graph.modules() {
    let u = m.specifier().to_string();
    let is_mod = matches!(m, deno_graph::Module::Js(_) | deno_graph::Module::Json(_) | deno_graph::Module::Wasm(_));
    if is_mod
      && (u.starts_with("https://") || u.starts_with("http://"))
      && !u.starts_with(REGISTRY)
      && !u.ends_with(".d.ts")
      && !b.locker.remote.contains_key(&u)
      && !set_remote.contains_key(&u)
    {
      o.violate("C05/new-remote-module-not-recorded", u);
    }
  }
  for (nv, vals) in &set_manifest {
    if b.locker.manifests.contains_key(nv) {
      o.violate("C05/existing-lockfile-entry-overwritten/manifest", format!("{nv}: {vals:?}"));
    }
    let (name, version) = nv.rsplit_once('@').unwrap();
    let u = format!("{REGISTRY}{name}/{version}_meta.json");
    let uses_lockfile_checksum = case
      .registry
      .packages
      .iter()
      .find(|p| p.name == name)
      .and_then(|p| p.versions.iter().find(|v| v.version == version))
      .map(|v| v.lockfile_checksum)
      .unwrap_or(false);
    let exp = if uses_lockfile_checksum {
      format!("lock-{name}-{version}")
    } else {
      b.served_sha.get(&u).cloned().unwrap_or_default()
    };
    let distinct: BTreeSet<&String> = vals.iter().collect();
    if distinct.len() != 1 || vals[0] != exp {
      o.violate(
        "C05/manifest-checksum-recorded-wrongly",
        format!("{nv}: recorded {vals:?}, expected {exp}"),
      );
    }
  }
  // every package whose modules are in the graph and that had no lockfile
  // entry got its manifest checksum recorded
  for (nv, _) in graph.packages.packages_with_deps() {
    let key = nv.to_string();
    if !b.locker.manifests.contains_key(&key) && !set_manifest.contains_key(&key) {
      o.violate("C05/new-manifest-not-recorded", key);
    }
  }
  // and so did every version manifest the build loaded (whatever became of
  // the package's files afterwards)
  for c in &log {
    if c.cache == "only" {
      continue;
    }
    let Some(rest) = c.spec.strip_prefix(REGISTRY) else { continue };
    let Some(stem) = rest.strip_suffix("_meta.json") else { continue };
    let Some((name, version)) = stem.rsplit_once('/') else { continue };
    let key = format!("{name}@{version}");
    if !b.served_sha.contains_key(&c.spec) {
      continue; // no such version: the load was answered "missing"
    }
    if !b.locker.manifests.contains_key(&key) && !set_manifest.contains_key(&key) {
      o.violate("C05/new-manifest-not-recorded/loaded", key);
    }
  }
  let _ = (&b.registry_files, HashMap::<u8, u8>::new());
  if !case.tampered.is_empty() {
    o.label("tampered-registry-file");
  }
  if case.with_module_graph {
    o.label("embedded-module-info");
  }
  if log.iter().any(|c| c.ensure_cached) {
    o.label("asset-load");
  }
  if log.iter().any(|c| c.cache == "reload") {
    o.label("retry");
  }
  if log.iter().any(|c| c.cache == "only") {
    o.label("cache-only-probe");
  }
  if passes > 1 {
    o.label("cache-busting-restart");
  }
  o.nontrivial = nontrivial;
  o
}
