//! C01 — a built graph is exactly the dependency closure of its roots.
//! Oracles: (a) reference model for every module's recorded dependencies,
//! (b) per-entry prediction from the world + redirect justification,
//! (c) model-free closure: nothing unreachable present, nothing reachable
//! absent.

use crate::harness::build_simple;
use crate::obs;
use crate::refmodel::{self, ExpModule, Res};
use crate::refwalk::follow_redirects;
use crate::runner::{Outcome, PropSpec, Tier};
use crate::world::{build_case_strategy, BuildCase, Entry, GenParams, Item, World};
use deno_graph::{MediaType, Module, ModuleGraph, ModuleSpecifier, Resolution};
use proptest::prelude::*;
use std::collections::{BTreeMap, BTreeSet};

pub fn spec() -> PropSpec<BuildCase> {
  PropSpec {
    id: "C01",
    strategy: |tier| {
      let p = GenParams {
        max_entries: tier.pick(9, 14),
        max_items: tier.pick(6, 8),
        ..Default::default()
      };
      build_case_strategy(p)
        .prop_map(|mut c| {
          crate::world::break_redirect_cycles(&mut c.world);
          c
        })
        .boxed()
    },
    check,
    cases: |tier| tier.pick(60_000, 1_200_000),
    rule: "generated worlds over all import forms, media types by extension and by content-type header, file/http/https/data/node/npm schemes, redirects, loader-followed redirects, externals, missing and erroring entries; 1-3 roots, 0-2 configured type imports, all three graph kinds, all build options of the quantifier; non-trivial = >= 2 modules with a followed edge AND (a specifier imported both statically and dynamically, or a target reached as code and as types, or an edge behind a redirect, or a static import inside a dynamic branch, or a non-default graph kind / option); distinct = distinct case JSON",
    assumptions: &[
      "same-attribute proviso by construction; a source-map URL target is not requested in any other way; no redirect cycles (C14/C03 own those)",
      "jsr: specifiers are not generated here (C06/C07 own the registry); npm: specifiers with and without an npm resolver are",
      "reference model: engine/src/refmodel.rs (written from DESIGN.md Appendix A.2); resolution itself (URL joining) is trusted from deno_path_util",
      "ranges are not compared (C08 owns them); error kinds of failed resolutions are compared as ok/err only",
      "entries whose acceptance depends on the request context (unknown / JSON media type reached through two requests) are reported once under their own signature",
    ],
    crash_is_violation: false,
    extra: None,
    level: "exploration",
  }
}

fn res_of(r: &Resolution) -> Res {
  match r {
    Resolution::None => Res::None,
    Resolution::Ok(ok) => Res::Ok(ok.specifier.to_string()),
    Resolution::Err(_) => Res::Err,
  }
}

fn kind_name(k: deno_graph::ImportKind) -> &'static str {
  use deno_graph::ImportKind::*;
  match k {
    Es => "es",
    EsSource => "esSource",
    Require => "require",
    TsType => "tsType",
    TsModuleAugmentation => "tsModuleAugmentation",
    TsReferencePath => "tsReferencePath",
    TsReferenceTypes => "tsReferenceTypes",
    JsxImportSource => "jsxImportSource",
    JsDoc => "jsDoc",
  }
}

/// The structured source the world serves under final specifier `s`.
pub fn source_of<'a>(
  world: &'a World,
  s: &str,
) -> Option<(Vec<Item>, Option<String>)> {
  match world.entries.get(s)? {
    Entry::Src { items, headers, .. } => Some((
      items.clone(),
      headers
        .iter()
        .find(|(h, _)| h == "x-typescript-types")
        .map(|(_, v)| v.clone()),
    )),
    // raw text that happens to parse declares nothing
    Entry::Text { .. } => Some((vec![], None)),
    Entry::Wasm { imports } => {
      let mut seen = BTreeSet::new();
      let items = imports
        .iter()
        .filter(|i| seen.insert((*i).clone()))
        .map(|i| Item::Import {
          spec: i.clone(),
          attr: None,
          types: None,
        })
        .collect();
      Some((items, None))
    }
    _ => None,
  }
}

pub fn expected_for(
  world: &World,
  m: &Module,
  opts: &crate::world::Opts,
) -> Option<ExpModule> {
  let (items, xtt) = source_of(world, m.specifier().as_str())?;
  let mt = m.media_type();
  let e = refmodel::expected_module(m.specifier(), mt, &items, xtt.as_deref(), opts);
  Some(refmodel::as_recorded(e, mt, opts))
}

pub fn check(case: &BuildCase, _tier: Tier) -> Outcome {
  let mut o = Outcome::default();
  let (graph, loader) =
    build_simple(&case.world, &case.roots, &case.imports, &case.opts);
  if obs::has_internal_error(&obs::graph_json(&graph)) {
    o.violate("C01/pending-entry", "serialised graph has an internal error entry");
  }
  let multi = obs::context_sensitive_multi_path(&case.world);
  let base = o.violations.len();
  check_modules(case, &graph, &mut o);
  check_entries(case, &graph, &mut o);
  check_closure(case, &graph, &mut o);
  let _ = loader;
  if let Some(class) = multi {
    if o.violations.len() > base {
      let first = format!("{} :: {}", o.violations[base].sig, o.violations[base].msg);
      o.violations.truncate(base);
      o.violate(
        format!("C01/context-sensitive-acceptance/{class}"),
        format!("(a context-sensitive answer reachable through two requests) {first}"),
      );
      o.label("context-sensitive-divergence");
    }
  }
  labels(case, &graph, &mut o);
  o
}

fn check_modules(case: &BuildCase, graph: &ModuleGraph, o: &mut Outcome) {
  for m in graph.modules() {
    if !matches!(m, Module::Js(_) | Module::Wasm(_)) {
      continue;
    }
    let s = m.specifier();
    // media type prediction
    if let Some(mt) = obs::served_media_type(&case.world, s.as_str()) {
      let predicted = if mt == MediaType::Unknown {
        MediaType::JavaScript
      } else {
        mt
      };
      if m.media_type() != predicted {
        o.violate(
          format!("C01/media-type/{:?}-vs-{:?}", m.media_type(), predicted),
          format!("{s}: graph {:?}, world {:?}", m.media_type(), predicted),
        );
      }
    }
    let Some(exp) = expected_for(&case.world, m, &case.opts) else {
      o.violate(
        format!("C01/module-without-source/{}", obs::module_kind(m)),
        format!("{s} is a module but the world serves no source under that specifier"),
      );
      continue;
    };
    let got = m.dependencies();
    let gk: BTreeSet<&String> = got.keys().collect();
    let ek: BTreeSet<&String> = exp.deps.keys().collect();
    let mtag = format!("{:?}", m.media_type());
    for k in ek.difference(&gk) {
      let d = &exp.deps[*k];
      o.violate(
        format!("C01/dependency-missing/{}/{mtag}", d.kinds.first().unwrap_or(&"?")),
        format!("{s}: source declares {k:?} ({:?}) but the module has no such dependency", d.kinds),
      );
    }
    for k in gk.difference(&ek) {
      let kinds: Vec<_> = got[*k].imports.iter().map(|i| kind_name(i.kind)).collect();
      o.violate(
        format!("C01/dependency-unexpected/{}/{mtag}", kinds.first().unwrap_or(&"?")),
        format!("{s}: module records dependency {k:?} ({kinds:?}) the source does not declare under {:?}", case.opts),
      );
    }
    for k in gk.intersection(&ek) {
      let g = &got[*k];
      let e = &exp.deps[*k];
      let gc = res_of(&g.maybe_code);
      let gt = res_of(&g.maybe_type);
      if gc != e.code() {
        o.violate(
          format!("C01/code-target/{}/{mtag}", e.kinds.first().unwrap_or(&"?")),
          format!("{s} {k:?}: code {gc:?}, expected {:?}", e.code()),
        );
      }
      if gt != e.ty() {
        o.violate(
          format!("C01/type-target/{}/{mtag}", e.kinds.first().unwrap_or(&"?")),
          format!("{s} {k:?}: type {gt:?}, expected {:?} (kinds {:?})", e.ty(), e.kinds),
        );
      }
      if g.is_dynamic != e.is_dynamic {
        o.violate(
          format!("C01/is-dynamic/{}", e.is_dynamic),
          format!("{s} {k:?}: is_dynamic {}, expected {} (kinds {:?})", g.is_dynamic, e.is_dynamic, e.kinds),
        );
      }
      if g.maybe_attribute_type != e.attr {
        o.violate(
          "C01/attribute-type",
          format!("{s} {k:?}: attribute {:?}, expected {:?}", g.maybe_attribute_type, e.attr),
        );
      }
      let mut gkinds: Vec<&str> = g.imports.iter().map(|i| kind_name(i.kind)).collect();
      let mut ekinds: Vec<&str> = e.kinds.clone();
      gkinds.sort();
      ekinds.sort();
      if gkinds != ekinds {
        o.violate(
          "C01/import-kinds",
          format!("{s} {k:?}: imports {gkinds:?}, expected {ekinds:?}"),
        );
      }
      for i in &g.imports {
        if i.specifier != **k && i.kind != deno_graph::ImportKind::JsxImportSource {
          o.violate("C01/import-text", format!("{s} {k:?}: import records text {:?}", i.specifier));
        }
      }
    }
    let gtd = m
      .maybe_types_dependency()
      .map(|t| (t.specifier.clone(), res_of(&t.dependency)));
    if gtd != exp.types_dep {
      o.violate(
        format!("C01/types-dependency/{mtag}"),
        format!("{s}: types dependency {gtd:?}, expected {:?}", exp.types_dep),
      );
    }
    if let Some(js) = m.js() {
      let gsm = js
        .maybe_source_map_dependency
        .as_ref()
        .map(|t| (t.specifier.clone(), res_of(&t.dependency)));
      if gsm != exp.source_map {
        o.violate(
          "C01/source-map-dependency",
          format!("{s}: source map {gsm:?}, expected {:?}", exp.source_map),
        );
      }
    }
  }
}

/// (b) per-entry prediction and redirect justification
fn check_entries(case: &BuildCase, graph: &ModuleGraph, o: &mut Outcome) {
  let world = &case.world;
  let entries = obs::entries(graph, false);
  let json_targets = crate::world::json_class_targets(world);
  for (s, state) in &entries {
    let scheme = s.split(':').next().unwrap_or("");
    let expected: Vec<&str> = match scheme {
      "node" => vec!["module:node", "error:The import attribute type", "error:Importing"],
      "npm" if case.opts.npm_resolver => vec!["module:npm", "error:The import attribute type", "error:Importing"],
      _ => match world.entries.get(s) {
        None => vec!["error:Module not found", "error:The import attribute type", "error:Importing"],
        Some(Entry::LoadErr) => vec!["error:injected loader error", "error:The import attribute type", "error:Importing"],
        Some(Entry::External) => vec!["module:external", "error:The import attribute type", "error:Importing"],
        Some(Entry::Redirect { .. }) => {
          vec!["error:Too many redirects", "error:The import attribute type", "error:Importing"]
        }
        // an asset import only asks whether the answer is cached, which does
        // not tell the final specifier of a loader-followed redirect
        Some(Entry::Alias { .. }) => {
          vec!["error:Too many redirects", "error:The import attribute type", "error:Importing", "module:external"]
        }
        Some(Entry::Src { .. }) | Some(Entry::Text { .. }) | Some(Entry::Wasm { .. }) => {
          // asset imports make any answer an external entry
          let mut v = vec!["module:external", "error:The import attribute type", "error:Importing", "error:Expected a Json module"];
          match obs::served_media_type(world, s) {
            Some(MediaType::Json) => v.extend(["module:json", "error:Expected a JavaScript or TypeScript module"]),
            Some(MediaType::Wasm) => v.extend(["module:wasm", "error:The Wasm module could not be parsed"]),
            Some(MediaType::Unknown) => v.extend(["module:js", "error:Expected a JavaScript or TypeScript module", "error:"]),
            Some(MediaType::Css) | Some(MediaType::SourceMap) | Some(MediaType::Html) | Some(MediaType::Sql) | Some(MediaType::Markdown) | Some(MediaType::Jsonc) | Some(MediaType::Json5) => {
              v.extend(["error:Expected a JavaScript or TypeScript module"])
            }
            Some(MediaType::Cjs) | Some(MediaType::Cts) if scheme != "file" => v.push("error:Remote CJS"),
            Some(_) => {
              v.push("module:js");
              // a parse error is expected only for text that is not a program
              // of that media type
              v.push("error:");
            }
            None => {}
          }
          v
        }
      },
    };
    // every request of this target carries `type: "json"` (one class per
    // target by construction, through redirects too): JSON is then a module
    // in every context, anything else is rejected as not being JSON
    let expected: Vec<&str> = if json_targets.contains(s)
      && matches!(world.entries.get(s), Some(Entry::Src { .. }) | Some(Entry::Text { .. }))
    {
      o.label("target-requested-with-json-attribute");
      match obs::served_media_type(world, s) {
        Some(MediaType::Json) => vec!["module:json"],
        _ => vec!["error:Expected a Json module"],
      }
    } else {
      expected
    };
    if !expected.iter().any(|p| state.starts_with(p)) {
      o.violate(
        format!(
          "C01/entry-kind/{}/{}",
          crate::props::c17::norm_state(state),
          match world.entries.get(s) {
            None => "absent",
            Some(Entry::LoadErr) => "loaderr",
            Some(Entry::External) => "external",
            Some(Entry::Redirect { .. }) => "redirect",
            Some(Entry::Alias { .. }) => "alias",
            Some(Entry::Src { .. }) => "src",
            Some(Entry::Text { .. }) => "text",
            Some(Entry::Wasm { .. }) => "wasm",
          }
        ),
        format!("{s}: graph has {state}, world allows {expected:?}"),
      );
    }
    if graph.redirects.contains_key(&ModuleSpecifier::parse(s).unwrap()) {
      o.violate(
        "C01/specifier-is-entry-and-redirect-source",
        format!("{s} has an entry ({state}) and a redirect"),
      );
    }
  }
  // every redirect of the graph is one the loader gave (or a scheme mapping)
  for (from, to) in &graph.redirects {
    let ok = match world.entries.get(from.as_str()) {
      Some(Entry::Redirect { to: t }) | Some(Entry::Alias { to: t }) => t == to.as_str(),
      _ => false,
    };
    if !ok {
      o.violate(
        "C01/redirect-not-given-by-loader",
        format!("graph redirects {from} -> {to}; world has {:?}", world.entries.get(from.as_str())),
      );
    }
  }
}

/// (c) closure over the graph's own data
fn check_closure(case: &BuildCase, graph: &ModuleGraph, o: &mut Outcome) {
  let opts = &case.opts;
  let kind = opts.graph_kind();
  let slots: BTreeMap<&ModuleSpecifier, Option<&Module>> = graph
    .modules()
    .map(|m| (m.specifier(), Some(m)))
    .chain(graph.module_errors().map(|e| (e.specifier(), None)))
    .collect();
  let mut reached: BTreeSet<ModuleSpecifier> = BTreeSet::new();
  let mut work: Vec<(ModuleSpecifier, String)> = Vec::new();
  for r in &graph.roots {
    work.push((r.clone(), "root".to_string()));
  }
  for (referrer, gi) in &graph.imports {
    for (t, d) in &gi.dependencies {
      if let Some(s) = d.maybe_type.maybe_specifier() {
        work.push((s.clone(), format!("configured import {t:?} of {referrer}")));
      }
    }
  }
  let mut seen: BTreeSet<ModuleSpecifier> = BTreeSet::new();
  while let Some((s, why)) = work.pop() {
    if !seen.insert(s.clone()) {
      continue;
    }
    let f = follow_redirects(graph, &s).clone();
    // every redirect on the way is "reached"
    {
      let mut cur = s.clone();
      while let Some(n) = graph.redirects.get(&cur) {
        reached.insert(cur.clone());
        if !seen.insert(n.clone()) && *n != f {
          break;
        }
        cur = n.clone();
      }
    }
    match slots.get(&f) {
      None => {
        o.violate(
          format!("C01/reachable-but-absent/{}", f.scheme()),
          format!("{f} (requested as {s}, {why}) has no entry"),
        );
      }
      Some(entry) => {
        reached.insert(f.clone());
        let Some(m) = entry else { continue };
        for (t, d) in m.dependencies() {
          if d.is_dynamic && opts.skip_dynamic_deps {
            continue;
          }
          for (r, which) in [(&d.maybe_code, "code"), (&d.maybe_type, "type")] {
            if let Some(ts) = r.maybe_specifier() {
              work.push((ts.clone(), format!("{which} target of {t:?} in {}", m.specifier())));
            }
          }
        }
        if kind.include_types() {
          if let Some(td) = m.maybe_types_dependency() {
            if let Some(ts) = td.dependency.maybe_specifier() {
              work.push((ts.clone(), format!("types dependency of {}", m.specifier())));
            }
          }
        }
        if let Some(js) = m.js() {
          if kind.include_code() || js.maybe_types_dependency.is_none() {
            if let Some(sm) = &js.maybe_source_map_dependency {
              if let Some(ts) = sm.dependency.maybe_specifier() {
                work.push((ts.clone(), format!("source map of {}", m.specifier())));
              }
            }
          }
        }
      }
    }
  }
  for s in slots.keys() {
    if !reached.contains(*s) {
      o.violate(
        format!("C01/unreachable-entry-present/{}", s.scheme()),
        format!("{s} has an entry but is not reachable from the roots / configured imports along followed edges"),
      );
    }
  }
  for s in graph.redirects.keys() {
    if !reached.contains(s) {
      o.violate(
        "C01/unreachable-redirect-present",
        format!("redirect from {s} is not on any followed path"),
      );
    }
  }
}

fn labels(case: &BuildCase, graph: &ModuleGraph, o: &mut Outcome) {
  let mods: Vec<&Module> = graph.modules().collect();
  let mut followed_edges = 0;
  let mut both_static_dynamic = false;
  let mut code_and_type: BTreeSet<String> = BTreeSet::new();
  let mut code_targets: BTreeSet<String> = BTreeSet::new();
  let mut type_targets: BTreeSet<String> = BTreeSet::new();
  let mut behind_redirect = false;
  for m in &mods {
    for d in m.dependencies().values() {
      let has_s = d.imports.iter().any(|i| !i.is_dynamic && i.kind.is_runtime());
      let has_d = d.imports.iter().any(|i| i.is_dynamic);
      if has_s && has_d {
        both_static_dynamic = true;
      }
      if let Some(s) = d.maybe_code.maybe_specifier() {
        followed_edges += 1;
        code_targets.insert(s.to_string());
        if graph.redirects.contains_key(s) {
          behind_redirect = true;
        }
      }
      if let Some(s) = d.maybe_type.maybe_specifier() {
        type_targets.insert(s.to_string());
      }
    }
    if let Some(td) = m.maybe_types_dependency() {
      if let Some(s) = td.dependency.maybe_specifier() {
        type_targets.insert(s.to_string());
      }
    }
  }
  for c in &code_targets {
    if type_targets.contains(c) {
      code_and_type.insert(c.clone());
    }
  }
  let nondefault = case.opts.kind != 0
    || case.opts.is_dynamic
    || case.opts.skip_dynamic_deps
    || case.opts.resolver != 0
    || case.opts.npm_resolver;
  if both_static_dynamic {
    o.label("static-and-dynamic-import-of-one-specifier");
  }
  if !code_and_type.is_empty() {
    o.label("target-as-code-and-as-types");
  }
  if behind_redirect {
    o.label("edge-behind-redirect");
  }
  if nondefault {
    o.label("non-default-kind-or-option");
  }
  o.label(format!("kind-{}", case.opts.kind));
  for m in &mods {
    o.label(format!("module-{}", obs::module_kind(m)));
    if let Module::Js(js) = m {
      o.label(format!("mt-{:?}", js.media_type));
      for d in js.dependencies.values() {
        for i in &d.imports {
          o.label(format!("import-{}{}", kind_name(i.kind), if i.is_dynamic { "-dyn" } else { "" }));
        }
      }
    }
  }
  o.nontrivial = mods.len() >= 2
    && followed_edges >= 1
    && (both_static_dynamic || !code_and_type.is_empty() || behind_redirect || nondefault);
}
