//! C08 — module analysis finds every dependency once, with exact specifier
//! ranges. Oracles: (1) completeness/uniqueness against the generator's
//! record, (2) exact byte ranges through an independent line/character
//! counter, (3) round trip of every reported range on the repository's spec
//! corpus, (4) position lookup through a one-module graph.

use crate::harness::{build_into, BuildEnv, Schedule, Served, WorldLoader};
use crate::runner::{ExtraReport, Outcome, PropSpec, Tier, Violation};
use crate::srcgen::{self, Exp, ExpKind, Program};
use crate::world::Opts;
use deno_graph::analysis::{
  DependencyDescriptor, DynamicArgument, DynamicDependencyKind,
  DynamicTemplatePart, ModuleInfo, StaticDependencyKind, TypeScriptReference,
};
use deno_graph::{ModuleGraph, ModuleSpecifier, Position, PositionRange};
use proptest::prelude::*;
use std::collections::BTreeMap;

pub fn spec() -> PropSpec<Program> {
  PropSpec {
    id: "C08",
    strategy: |tier| srcgen::program_strategy(tier.pick(10, 16)).boxed(),
    check,
    cases: |tier| tier.pick(30_000, 600_000),
    rule: "generated programs (0-10, thorough 16, pieces) over every dependency-bearing form of the statement for TS/TSX/JS/JSX/.d.ts/.mjs/.mts, nested in functions, classes, conditionals, namespaces and `declare module` blocks, separated by trivia with non-ASCII and astral text, CRLF / LF, shebang, escaped string literals, templates, head pragmas in line and block comment styles, JSDoc import types and @import tags, `//#`, `//@` and block-comment sourceMappingURL; plus every module source of the spec corpus (round trip only); non-trivial = a multi-byte character or a CR precedes some dependency, or the program has a pragma / JSDoc / triple-slash form; distinct = distinct case JSON",
    assumptions: &[
      "positions are (line, character) with lines separated by LF and characters counted as Unicode scalar values (deno_ast's convention)",
      "programs that do not parse are discarded (counted)",
      "a BOM is not part of the analysed text (C20 owns its removal)",
    ],
    crash_is_violation: false,
    extra: Some(extra),
    level: "exploration",
  }
}

/// byte offset of a (line, character) position
pub fn to_byte(text: &str, p: Position) -> Option<usize> {
  let mut line = 0usize;
  let mut line_start = 0usize;
  if p.line > 0 {
    for (i, b) in text.bytes().enumerate() {
      if b == b'\n' {
        line += 1;
        if line == p.line {
          line_start = i + 1;
          break;
        }
      }
    }
    if line != p.line {
      return None;
    }
  }
  let rest = &text[line_start..];
  let mut n = 0usize;
  for (i, _) in rest.char_indices() {
    if n == p.character {
      return Some(line_start + i);
    }
    n += 1;
  }
  if n == p.character {
    Some(text.len())
  } else {
    None
  }
}

pub fn to_position(text: &str, byte: usize) -> Position {
  let before = &text[..byte];
  let line = before.bytes().filter(|b| *b == b'\n').count();
  let line_start = before.rfind('\n').map(|i| i + 1).unwrap_or(0);
  Position {
    line,
    character: before[line_start..].chars().count(),
  }
}

fn byte_range(text: &str, r: &PositionRange) -> (usize, usize) {
  (
    to_byte(text, r.start).unwrap_or(usize::MAX),
    to_byte(text, r.end).unwrap_or(usize::MAX),
  )
}

fn static_kind(k: StaticDependencyKind) -> &'static str {
  use StaticDependencyKind::*;
  match k {
    Import => "import",
    ImportDefer => "importDefer",
    ImportSource => "importSource",
    ImportType => "importType",
    ImportEquals => "importEquals",
    Export => "export",
    ExportType => "exportType",
    ExportEquals => "exportEquals",
    MaybeTsModuleAugmentation => "maybeTsModuleAugmentation",
  }
}

/// The analyser's result in the generator's vocabulary.
pub fn reported(text: &str, info: &ModuleInfo) -> Vec<Exp> {
  let mut out = Vec::new();
  for d in &info.dependencies {
    match d {
      DependencyDescriptor::Static(s) => out.push(Exp {
        kind: ExpKind::Static(static_kind(s.kind)),
        text: s.specifier.clone(),
        range: byte_range(text, &s.specifier_range),
        attr_type: s.import_attributes.get("type").map(|x| x.to_string()),
        side_effect: s.is_side_effect,
        types: s
          .types_specifier
          .as_ref()
          .map(|t| (t.text.clone(), byte_range(text, &t.range))),
      }),
      DependencyDescriptor::Dynamic(dd) => {
        let (kind, txt): (&'static str, String) = match &dd.argument {
          DynamicArgument::String(s) => (
            match dd.kind {
              DynamicDependencyKind::Import => "import",
              DynamicDependencyKind::ImportDefer => "importDefer",
              DynamicDependencyKind::ImportSource => "importSource",
              DynamicDependencyKind::Require => "require",
            },
            s.clone(),
          ),
          DynamicArgument::Template(parts) => (
            "template",
            parts
              .iter()
              .map(|p| match p {
                DynamicTemplatePart::String { value } => value.clone(),
                DynamicTemplatePart::Expr => "|<expr>|".to_string(),
              })
              .collect(),
          ),
          DynamicArgument::Expr => ("opaque", String::new()),
        };
        out.push(Exp {
          kind: ExpKind::Dynamic(kind),
          text: txt,
          range: byte_range(text, &dd.argument_range),
          attr_type: dd.import_attributes.get("type").map(|x| x.to_string()),
          side_effect: false,
          types: dd
            .types_specifier
            .as_ref()
            .map(|t| (t.text.clone(), byte_range(text, &t.range))),
        })
      }
    }
  }
  let simple = |kind: ExpKind, t: &deno_graph::analysis::SpecifierWithRange| Exp {
    kind,
    text: t.text.clone(),
    range: byte_range(text, &t.range),
    attr_type: None,
    side_effect: false,
    types: None,
  };
  for r in &info.ts_references {
    match r {
      TypeScriptReference::Path(s) => out.push(simple(ExpKind::RefPath, s)),
      TypeScriptReference::Types { specifier, .. } => out.push(simple(ExpKind::RefTypes, specifier)),
    }
  }
  if let Some(s) = &info.self_types_specifier {
    out.push(simple(ExpKind::SelfTypes, s));
  }
  if let Some(s) = &info.jsx_import_source {
    out.push(simple(ExpKind::Jsx, s));
  }
  if let Some(s) = &info.jsx_import_source_types {
    out.push(simple(ExpKind::JsxTypes, s));
  }
  for j in &info.jsdoc_imports {
    out.push(simple(ExpKind::JsDoc, &j.specifier));
  }
  if let Some(s) = &info.source_map_url {
    out.push(simple(ExpKind::SourceMap, s));
  }
  out
}

fn kind_tag(k: &ExpKind) -> String {
  match k {
    ExpKind::Static(s) => format!("static-{s}"),
    ExpKind::Dynamic(s) => format!("dynamic-{s}"),
    other => format!("{other:?}"),
  }
}

pub fn check(p: &Program, _tier: Tier) -> Outcome {
  let mut o = Outcome::default();
  let built = srcgen::build(p);
  let text = built.text.as_str();
  let url = ModuleSpecifier::parse(p.mt.url()).unwrap();
  let info = match deno_graph::ast::ParserModuleAnalyzer::default().analyze_sync(
    &url,
    text.into(),
    p.mt.media_type(),
  ) {
    Ok(i) => i,
    Err(e) => {
      o.discarded = true;
      o.label(format!("discard-parse-error: {}", e.to_string().lines().next().unwrap_or("")));
      return o;
    }
  };
  let mut got = reported(text, &info);
  let mut exp = built.expected.clone();
  got.sort();
  exp.sort();
  if got != exp {
    // classify: missing / extra / range / attributes
    let gi: Vec<&Exp> = got.iter().collect();
    for e in &exp {
      if !gi.iter().any(|g| *g == e) {
        let same_site = got
          .iter()
          .find(|g| g.kind == e.kind && g.text == e.text && g.range != e.range);
        let other = got.iter().find(|g| g.kind == e.kind && g.range == e.range);
        if let Some(g) = same_site {
          o.violate(
            format!("C08/range/{}", kind_tag(&e.kind)),
            format!(
              "{:?} {:?}: reported range covers {:?}, the specifier is at {:?} = {:?}",
              e.kind,
              e.text,
              text.get(g.range.0.min(text.len())..g.range.1.min(text.len())),
              e.range,
              &text[e.range.0..e.range.1]
            ),
          );
        } else if let Some(g) = other {
          o.violate(
            format!("C08/descriptor-differs/{}", kind_tag(&e.kind)),
            format!("expected {e:?}\nreported {g:?}"),
          );
        } else {
          o.violate(
            format!("C08/not-reported/{}", kind_tag(&e.kind)),
            format!("{e:?} in\n{text}"),
          );
        }
      }
    }
    for g in &got {
      if !exp.iter().any(|e| e == g) && !exp.iter().any(|e| e.kind == g.kind && (e.range == g.range || e.text == g.text)) {
        o.violate(
          format!("C08/reported-but-not-written/{}", kind_tag(&g.kind)),
          format!("{g:?} in\n{text}"),
        );
      }
    }
    if o.violations.is_empty() {
      o.violate("C08/multiset-differs", format!("got {got:?}\nexpected {exp:?}"));
    }
  }

  // (4) position lookup through a one-module graph
  if o.violations.is_empty() {
    position_lookup(p, text, &url, &built.expected, &mut o);
  }

  let multibyte_before = built.expected.iter().any(|e| {
    let before = &text[..e.range.0];
    !before.is_ascii() || before.contains('\r')
  });
  let pragma = built.expected.iter().any(|e| {
    !matches!(e.kind, ExpKind::Static(_) | ExpKind::Dynamic(_)) || e.types.is_some()
  });
  if multibyte_before {
    o.label("non-ascii-or-cr-before-dependency");
  }
  if pragma {
    o.label("pragma-jsdoc-or-reference");
  }
  for e in &built.expected {
    o.label(kind_tag(&e.kind));
  }
  o.label(format!("mt-{:?}", p.mt));
  o.nontrivial = !built.expected.is_empty() && (multibyte_before || pragma);
  o
}

fn position_lookup(
  p: &Program,
  text: &str,
  url: &ModuleSpecifier,
  expected: &[Exp],
  o: &mut Outcome,
) {
  let mut served = BTreeMap::new();
  served.insert(
    url.clone(),
    Served::Module {
      bytes: text.as_bytes().to_vec().into(),
      headers: None,
      final_spec: url.clone(),
    },
  );
  let loader = WorldLoader::new(served);
  let opts = Opts::default();
  let mut graph = ModuleGraph::new(opts.graph_kind());
  build_into(
    &mut graph,
    vec![url.clone()],
    vec![],
    BuildEnv {
      loader: &loader,
      opts: &opts,
      locker: None,
      npm: None,
      jsr_version_resolver: None,
      prefer_cached: false,
    },
    &Schedule::default(),
    false,
  )
  .expect("ungated build");
  let Some(module) = graph.get(url) else { return };
  let deps = module.dependencies();
  // only the first types pragma of a specifier text is recorded
  let mut pragma_seen: std::collections::BTreeSet<String> = Default::default();
  // references, JSX import source and JSDoc imports are processed before the
  // ES dependencies, wherever they stand in the source
  for e in expected {
    match &e.kind {
      ExpKind::JsDoc | ExpKind::RefPath | ExpKind::RefTypes => {
        pragma_seen.insert(e.text.clone());
      }
      ExpKind::Jsx => {
        pragma_seen.insert(format!("{}/jsx-runtime", e.text));
      }
      _ => {}
    }
  }
  for e in expected {
    let key: String = match &e.kind {
      ExpKind::Static(k) => {
        // declaration files have no code imports but keep the dependency
        if *k == "maybeTsModuleAugmentation" {
          pragma_seen.insert(e.text.clone());
          continue; // only kept when it resolves to a type target
        }
        e.text.clone()
      }
      ExpKind::Dynamic(k) if !matches!(*k, "template" | "opaque") => e.text.clone(),
      ExpKind::JsDoc | ExpKind::RefPath => e.text.clone(),
      ExpKind::RefTypes if p.mt.is_ts() => e.text.clone(),
      ExpKind::Jsx => format!("{}/jsx-runtime", e.text),
      _ => continue,
    };
    let Some(dep) = deps.get(&key) else {
      o.violate(
        format!("C08/lookup/dependency-absent/{}", kind_tag(&e.kind)),
        format!("module has no dependency keyed {key:?} for {e:?}"),
      );
      continue;
    };
    let mut sites = vec![(e.range, "specifier")];
    // the first type target of a specifier text wins: a pragma counts only
    // if nothing before it (reference, JSDoc, earlier import) named the text
    let first_mention = matches!(e.kind, ExpKind::Static(_) | ExpKind::Dynamic(_))
      && pragma_seen.insert(key.clone());
    if let Some((_, r)) = &e.types {
      if first_mention {
        sites.push((*r, "types-pragma"));
      }
    }
    for ((start, end), what) in sites {
      // first character, a middle character, last character
      let mut offsets = vec![start, end - 1];
      let mid = start + (end - start) / 2;
      if text.is_char_boundary(mid) {
        offsets.push(mid);
      }
      for off in offsets {
        if !text.is_char_boundary(off) {
          continue;
        }
        let pos = to_position(text, off);
        let got = dep.includes(pos);
        let expected_range = PositionRange {
          start: to_position(text, start),
          end: to_position(text, end),
        };
        match got {
          None => o.violate(
            format!("C08/lookup/position-not-found/{}/{what}", kind_tag(&e.kind)),
            format!("position {pos} (byte {off}) inside {:?} of dependency {key:?} is not included", &text[start..end]),
          ),
          Some(r) => {
            if r.range != expected_range {
              o.violate(
                format!("C08/lookup/wrong-range/{}/{what}", kind_tag(&e.kind)),
                format!("position {pos}: returned {:?}, expected {:?}", r.range, expected_range),
              );
            }
          }
        }
        // no other dependency claims this position
        for (k2, d2) in deps {
          if k2 != &key && d2.includes(pos).is_some() {
            o.violate(
              format!("C08/lookup/position-claimed-by-other-dependency/{}", kind_tag(&e.kind)),
              format!("position {pos} inside {:?} ({key:?}) is also included by {k2:?}", &text[start..end]),
            );
          }
        }
      }
    }
  }
}

// ---------------------------------------------------------------------------
// corpus layer: every module source embedded in the repository's spec files

pub fn corpus_sources() -> Vec<(String, String, String)> {
  // (spec file, specifier, source)
  let mut out = Vec::new();
  let root = std::path::Path::new("/repo/tests/specs");
  let mut stack = vec![root.to_path_buf()];
  while let Some(dir) = stack.pop() {
    let Ok(rd) = std::fs::read_dir(&dir) else { continue };
    let mut entries: Vec<_> = rd.filter_map(|e| e.ok()).map(|e| e.path()).collect();
    entries.sort();
    for p in entries {
      if p.is_dir() {
        stack.push(p);
      } else if p.extension().and_then(|s| s.to_str()) == Some("txt") {
        let Ok(text) = std::fs::read_to_string(&p) else { continue };
        let mut current: Option<(String, String)> = None;
        for line in text.split_inclusive('\n') {
          if let Some(rest) = line.strip_prefix("# ") {
            if let Some((s, src)) = current.take() {
              out.push((p.display().to_string(), s, src));
            }
            let name = rest.trim();
            if name == "output" || name.starts_with("mod.") && false {
              current = None;
              if name == "output" {
                break;
              }
            } else {
              current = Some((name.to_string(), String::new()));
            }
          } else if line.starts_with("~~") {
            continue;
          } else if let Some((_, src)) = current.as_mut() {
            src.push_str(line);
          }
        }
        if let Some((s, src)) = current.take() {
          out.push((p.display().to_string(), s, src));
        }
      }
    }
  }
  out
}

fn media_type_of(name: &str) -> Option<deno_graph::MediaType> {
  let url = if name.contains("://") || name.starts_with("file:") {
    ModuleSpecifier::parse(name).ok()?
  } else {
    ModuleSpecifier::parse(&format!("file:///{}", name.trim_start_matches('/'))).ok()?
  };
  let mt = deno_graph::MediaType::from_specifier(&url);
  use deno_graph::MediaType as M;
  matches!(
    mt,
    M::JavaScript | M::Jsx | M::Mjs | M::TypeScript | M::Mts | M::Tsx | M::Dts | M::Dmts
  )
  .then_some(mt)
}

pub fn extra(_tier: Tier, _seed: u64) -> ExtraReport {
  let mut rep = ExtraReport::default();
  let mut sigs: std::collections::BTreeSet<String> = std::collections::BTreeSet::new();
  let mut parsed = 0u64;
  for (file, name, src) in corpus_sources() {
    if let Some(only) = crate::runner::only_corpus_file() {
      if only != file {
        continue;
      }
    }
    let Some(mt) = media_type_of(&name) else { continue };
    crate::runner::set_current_item(&serde_json::json!({"corpus_file": file, "module": name}));
    let src = src.trim_start_matches("HEADERS:").to_string();
    let url = ModuleSpecifier::parse("file:///corpus.ts").unwrap();
    let Ok(info) = deno_graph::ast::ParserModuleAnalyzer::default()
      .analyze_sync(&url, src.as_str().into(), mt)
    else {
      continue;
    };
    parsed += 1;
    rep.evaluations += 1;
    let items = reported(&src, &info);
    let mut nontrivial = false;
    for e in &items {
      if matches!(e.kind, ExpKind::Dynamic("template") | ExpKind::Dynamic("opaque")) {
        continue;
      }
      let mut sites = vec![(e.range, e.text.clone(), matches!(e.kind, ExpKind::Jsx | ExpKind::JsxTypes | ExpKind::SourceMap))];
      if let Some((t, r)) = &e.types {
        sites.push((*r, t.clone(), false));
      }
      for ((s, en), cooked, quoteless) in sites {
        let slice = src.get(s.min(src.len())..en.min(src.len()));
        let ok = match slice {
          None => false,
          Some(sl) => {
            if !src[..s.min(src.len())].is_ascii() {
              nontrivial = true;
            }
            if quoteless || !sl.starts_with(['"', '\'', '`']) {
              sl == cooked
            } else if sl.contains('\\') {
              true // escapes: covered by the generated layer
            } else {
              sl.len() >= 2
                && sl.chars().next() == sl.chars().last()
                && sl[1..sl.len() - 1] == cooked
            }
          }
        };
        if !ok {
          let sig = format!("C08/corpus/range-does-not-cover-specifier/{}", kind_tag(&e.kind));
          if sigs.insert(sig.clone()) {
            rep.violations.push((
              Violation {
                sig,
                msg: format!("{file} # {name}: reported {cooked:?} at bytes {s}..{en} = {slice:?}"),
              },
              serde_json::json!({"corpus_file": file, "module": name}),
            ));
          }
        }
      }
    }
    if !items.is_empty() {
      let j = serde_json::json!({"corpus_file": file, "module": name, "dependencies": items.len()});
      if nontrivial || items.iter().any(|e| !matches!(e.kind, ExpKind::Static(_))) {
        rep.nontrivial_hashes.push(crate::runner::hash_json(&j));
        if rep.samples.is_empty() {
          rep.samples.push(j);
        }
      }
    }
  }
  rep.notes.push(format!("spec corpus: {parsed} embedded module sources parsed and round-tripped"));
  *rep.labels.entry("corpus-modules".into()).or_insert(0) += parsed;
  mutation_layer(&mut rep, &mut sigs, _seed, _tier);
  rep
}

/// Text-level mutations of every corpus source with an exact metamorphic
/// expectation: inserting text that is trivia (a comment line, a comment in
/// front of an import / export statement, a shebang, CR before every LF)
/// leaves the reported dependencies as they were and moves every reported
/// range by exactly the bytes inserted before it.
fn mutation_layer(
  rep: &mut ExtraReport,
  sigs: &mut std::collections::BTreeSet<String>,
  seed: u64,
  tier: Tier,
) {
  use sha2::{Digest, Sha256};
  let rounds = tier.pick(4u64, 16u64);
  let mut applied = 0u64;
  let mut preserved = 0u64;
  let mut changed = 0u64;
  let mut unparsable = 0u64;
  for (file, name, src) in corpus_sources() {
    if let Some(only) = crate::runner::only_corpus_file() {
      if only != file {
        continue;
      }
    }
    let Some(mt) = media_type_of(&name) else { continue };
    let src = src.trim_start_matches("HEADERS:").to_string();
    if src.contains('\r') {
      continue;
    }
    let url = ModuleSpecifier::parse("file:///corpus.ts").unwrap();
    let analyze = |text: &str| {
      deno_graph::ast::ParserModuleAnalyzer::default()
        .analyze_sync(&url, text.into(), mt)
        .ok()
    };
    let Some(info0) = analyze(&src) else { continue };
    let base = reported(&src, &info0);
    if base.is_empty() {
      continue;
    }
    // line starts
    let mut line_starts = vec![0usize];
    for (i, b) in src.bytes().enumerate() {
      if b == b'\n' && i + 1 < src.len() {
        line_starts.push(i + 1);
      }
    }
    for m in 0..rounds {
      let mut h = Sha256::new();
      h.update(seed.to_le_bytes());
      h.update(file.as_bytes());
      h.update(name.as_bytes());
      h.update(m.to_le_bytes());
      let d = h.finalize();
      let pick = |k: usize, n: usize| -> usize {
        let v = u32::from_le_bytes([d[4 * k], d[4 * k + 1], d[4 * k + 2], d[4 * k + 3]]) as usize;
        if n == 0 {
          0
        } else {
          v % n
        }
      };
      // insertions: (offset in the original, text)
      let mut ins: Vec<(usize, String)> = Vec::new();
      let kind = match pick(0, 4) {
        0 => {
          let at = line_starts[pick(1, line_starts.len())];
          ins.push((at, "/* \u{e9}\u{1F600} \u{2028}x */\n".to_string()));
          "comment-line"
        }
        1 => {
          // in front of an import / export statement whose previous line is
          // not a comment (a pragma must stay the last leading comment)
          let cands: Vec<usize> = line_starts
            .iter()
            .enumerate()
            .filter(|(li, st)| {
              let line = &src[**st..];
              let t = line.trim_start();
              let prev_ok = *li == 0 || {
                let prev = src[line_starts[*li - 1]..**st].trim();
                !(prev.starts_with("//") || prev.ends_with("*/") || prev.starts_with('*') || prev.starts_with("/*"))
              };
              (t.starts_with("import ") || t.starts_with("import\"") || t.starts_with("import {") || t.starts_with("export ")) && prev_ok
            })
            .map(|(_, st)| {
              let line = &src[*st..];
              *st + (line.len() - line.trim_start().len())
            })
            .collect();
          if cands.is_empty() {
            continue;
          }
          ins.push((cands[pick(1, cands.len())], "/* \u{e9}\u{1F600} */ ".to_string()));
          "inline-comment"
        }
        2 => {
          if src.starts_with("#!") {
            continue;
          }
          ins.push((0, "#!/usr/bin/env -S deno run \u{e9}\n".to_string()));
          "shebang"
        }
        _ => {
          for (i, b) in src.bytes().enumerate() {
            if b == b'\n' {
              ins.push((i, "\r".to_string()));
            }
          }
          if ins.is_empty() {
            continue;
          }
          "crlf"
        }
      };
      ins.sort_by_key(|x| x.0);
      let mut text = String::with_capacity(src.len() + 64);
      let mut last = 0usize;
      for (at, t) in &ins {
        text.push_str(&src[last..*at]);
        text.push_str(t);
        last = *at;
      }
      text.push_str(&src[last..]);
      applied += 1;
      rep.evaluations += 1;
      crate::runner::set_current_item(&serde_json::json!({"corpus_file": file, "module": name, "mutation": m}));
      let Some(info1) = analyze(&text) else {
        unparsable += 1;
        continue;
      };
      let got = reported(&text, &info1);
      let same = got.len() == base.len()
        && got.iter().zip(base.iter()).all(|(a, b)| {
          a.kind == b.kind
            && a.text == b.text
            && a.attr_type == b.attr_type
            && a.types.as_ref().map(|t| &t.0) == b.types.as_ref().map(|t| &t.0)
        });
      if !same {
        // the insertion was not trivia at that place (inside a template, a
        // JSX text, between a pragma and its import, ...): no expectation
        changed += 1;
        continue;
      }
      preserved += 1;
      let shift_start = |o: usize| o + ins.iter().filter(|(at, _)| *at <= o).map(|(_, t)| t.len()).sum::<usize>();
      let shift_end = |o: usize| o + ins.iter().filter(|(at, _)| *at < o).map(|(_, t)| t.len()).sum::<usize>();
      let mut moved = false;
      for (a, b) in got.iter().zip(base.iter()) {
        let mut pairs = vec![(a.range, b.range)];
        if let (Some(ta), Some(tb)) = (&a.types, &b.types) {
          pairs.push((ta.1, tb.1));
        }
        for ((gs, ge), (bs, be)) in pairs {
          if bs > src.len() || be > src.len() || bs > be {
            continue; // the unmutated layer reports those
          }
          let want = (shift_start(bs), shift_end(be));
          if want != (bs, be) {
            moved = true;
          }
          if (gs, ge) != want {
            let sig = format!("C08/mutated-corpus/range-not-moved-with-the-text/{}/{kind}", kind_tag(&a.kind));
            if sigs.insert(sig.clone()) {
              rep.violations.push((
                Violation {
                  sig,
                  msg: format!(
                    "{file} # {name}: after inserting {kind} trivia the range of {:?} is bytes {gs}..{ge} = {:?}, expected {}..{} = {:?}\n--- mutated source\n{text}",
                    a.text,
                    text.get(gs.min(text.len())..ge.min(text.len())),
                    want.0,
                    want.1,
                    text.get(want.0.min(text.len())..want.1.min(text.len())),
                  ),
                },
                serde_json::json!({"corpus_file": file, "module": name, "mutation": m}),
              ));
            }
          }
        }
      }
      if moved {
        rep.nontrivial_hashes.push(crate::runner::hash_json(&serde_json::json!({"corpus_file": file, "module": name, "mutation": m, "kind": kind})));
      }
    }
  }
  crate::runner::clear_current_item();
  rep.notes.push(format!(
    "mutated corpus: {applied} trivia insertions (comment line, comment before an import/export, shebang, CRLF) applied to corpus sources; {preserved} left the reported dependencies unchanged and had every range compared with the shifted original, {changed} changed the dependencies (no expectation), {unparsable} no longer parsed"
  ));
  *rep.labels.entry("mutated-corpus-sources".into()).or_insert(0) += applied;
  *rep.labels.entry("mutated-corpus-ranges-compared".into()).or_insert(0) += preserved;
}
