//! C04 — build results do not depend on load completion order or on the run.
//! Oracle: differential against the identity-schedule run of the same case.

use crate::harness::{
  build_into, parse_imports, parse_roots, BuildEnv, DriveStats, LockCall,
  RecLocker, Sched, Schedule, WorldLoader,
};
use crate::obs;
use crate::runner::{ExtraReport, Outcome, PropSpec, Tier, Violation};
use crate::world::{build_case_strategy, BuildCase, GenParams};
use deno_graph::ModuleGraph;
use proptest::prelude::*;
use proptest::strategy::ValueTree;
use serde::{Deserialize, Serialize};
use std::collections::BTreeSet;

#[derive(Clone, Debug, Serialize, Deserialize)]
pub struct Case {
  pub build: BuildCase,
  pub schedules: Vec<Schedule>,
  pub reruns: u8,
  /// a registry and an entry module importing from it (extra root)
  #[serde(default)]
  pub jsr: Option<crate::props::c07::JsrPart>,
  /// adds two more roots: the first imports k files as text assets, the
  /// second imports the same files as code while those asset loads are still
  /// outstanding (so the code loads wait and are issued together later); every
  /// file imports one missing module, whose referrer is the first visitor
  #[serde(default)]
  pub deferred_fan: Option<u8>,
}

fn with_fan(b: &BuildCase, k: u8) -> BuildCase {
  use crate::world::{Entry, Item, Lang};
  let mut b = b.clone();
  let files: Vec<String> = (0..k).map(|i| format!("file:///fan/t{i}.ts")).collect();
  b.world.entries.insert(
    "file:///fan/a.ts".into(),
    Entry::Src {
      lang: Lang::Ts,
      items: files
        .iter()
        .map(|f| Item::Import { spec: f.clone(), attr: Some("text".into()), types: None })
        .collect(),
      headers: vec![],
    },
  );
  b.world.entries.insert(
    "file:///fan/b.ts".into(),
    Entry::Src {
      lang: Lang::Ts,
      items: files
        .iter()
        .map(|f| Item::Import { spec: f.clone(), attr: None, types: None })
        .collect(),
      headers: vec![],
    },
  );
  for f in &files {
    b.world.entries.insert(
      f.clone(),
      Entry::Src {
        lang: Lang::Ts,
        items: vec![Item::Import { spec: "file:///fan/missing.ts".into(), attr: None, types: None }],
        headers: vec![],
      },
    );
  }
  b.roots.push("file:///fan/a.ts".into());
  b.roots.push("file:///fan/b.ts".into());
  b.opts.unstable_text = true;
  b
}

fn params(tier: Tier) -> GenParams {
  GenParams {
    max_entries: tier.pick(10, 14),
    max_items: tier.pick(6, 8),
    ..Default::default()
  }
}

pub fn spec() -> PropSpec<Case> {
  PropSpec {
    id: "C04",
    strategy: |tier| {
      (
        build_case_strategy(params(tier)),
        proptest::collection::vec(
          (
            proptest::collection::vec(any::<u16>(), 0..24),
            0..2u8,
          )
            .prop_map(|(choices, tail)| Schedule { choices, tail }),
          1..=tier.pick(4, 8),
        ),
        2..=4u8,
        proptest::option::weighted(0.55, crate::props::c07::jsr_part_strategy()),
        proptest::option::weighted(0.12, 2..=6u8),
      )
        .prop_map(|(build, schedules, reruns, jsr, deferred_fan)| Case {
          build,
          schedules,
          reruns,
          jsr,
          deferred_fan,
        })
        .boxed()
    },
    check,
    cases: |tier| tier.pick(40_000, 400_000),
    rule: "generated worlds (fan-out, diamonds, several dynamic imports, redirects, remote modules with a recording lockfile) each built once with every load future ready immediately, then under 1-4 (thorough 8) drawn completion schedules (choice among the currently outstanding loads at every step, FIFO or LIFO tail) and re-run 2-4 times in the same process (fresh hasher state); exhaustive layer: all completion orders of small worlds by stateless DFS; non-trivial = some decision point had >= 2 outstanding loads, or the world has >= 2 dynamic branches; distinct = distinct case JSON",
    assumptions: &[
      "the loader's answers are a function of the request (specifier, options) only; the schedule only decides when each answer is delivered",
      "spawned metadata tasks run inline (pass-through executor)",
      "compared observables: serde_json::to_value(&graph), every module error with its referrer range, resolution errors of every dependency, final lockfile contents and the multiset of Locker::set_* calls",
    ],
    crash_is_violation: false,
    extra: Some(extra),
    level: "exploration",
  }
}

#[derive(Debug, Clone, PartialEq)]
pub struct Observed {
  pub graph: serde_json::Value,
  pub errors: Vec<String>,
  pub locker_remote: Vec<(String, String)>,
  pub locker_sets: Vec<String>,
}

pub fn observe(graph: &ModuleGraph, locker: &RecLocker) -> Observed {
  let mut errors: Vec<String> = graph
    .module_errors()
    .map(|e| e.to_string_with_range())
    .collect();
  for m in graph.modules() {
    for (t, d) in m.dependencies() {
      for r in [&d.maybe_code, &d.maybe_type] {
        if let Some(e) = r.err() {
          errors.push(format!("{} {t}: {}", m.specifier(), e.to_string_with_range()));
        }
      }
    }
  }
  errors.sort();
  let mut sets: Vec<String> = locker
    .calls
    .borrow()
    .iter()
    .filter_map(|c| match c {
      LockCall::SetRemote(a, b) => Some(format!("remote {a} {b}")),
      LockCall::SetManifest(a, b) => Some(format!("manifest {a} {b}")),
      _ => None,
    })
    .collect();
  sets.sort();
  Observed {
    graph: obs::graph_json(graph),
    errors,
    locker_remote: locker
      .remote
      .iter()
      .map(|(a, b)| (a.clone(), b.clone()))
      .chain(locker.manifests.iter().map(|(a, b)| (a.clone(), b.clone())))
      .collect(),
    locker_sets: sets,
  }
}

pub fn run(
  b: &BuildCase,
  schedule: Option<&Schedule>,
) -> Result<(Observed, DriveStats), DriveStats> {
  run_with(b, None, schedule)
}

pub fn run_with(
  b: &BuildCase,
  jsr: Option<&crate::props::c07::JsrPart>,
  schedule: Option<&Schedule>,
) -> Result<(Observed, DriveStats), DriveStats> {
  let mut served = crate::harness::materialize(&b.world);
  let mut roots = b.roots.clone();
  let mut cache = None;
  if let Some(j) = jsr {
    cache = Some(j.install(&mut served));
    roots.push(crate::props::c07::JSR_MAIN.to_string());
  }
  let mut loader = WorldLoader::new(served);
  loader.cache = cache;
  if schedule.is_some() {
    loader.sched = Sched::new(true);
  }
  let mut locker = RecLocker::default();
  let mut graph = ModuleGraph::new(b.opts.graph_kind());
  let default = Schedule::default();
  let stats = build_into(
    &mut graph,
    parse_roots(&roots),
    parse_imports(&b.imports),
    BuildEnv {
      loader: &loader,
      opts: &b.opts,
      locker: Some(&mut locker),
      npm: None,
      jsr_version_resolver: None,
      prefer_cached: jsr.map(|j| j.prefer_cached).unwrap_or(false),
    },
    schedule.unwrap_or(&default),
    false,
  )?;
  Ok((observe(&graph, &locker), stats))
}

pub fn diff_observed(a: &Observed, b: &Observed) -> Option<(String, String)> {
  if a.errors != b.errors {
    let only_a: Vec<_> = a.errors.iter().filter(|e| !b.errors.contains(e)).collect();
    let only_b: Vec<_> = b.errors.iter().filter(|e| !a.errors.contains(e)).collect();
    return Some((
      "errors-or-referrers".into(),
      format!("baseline only: {only_a:?}\nthis run only: {only_b:?}"),
    ));
  }
  if a.graph != b.graph {
    let am = a.graph.get("modules");
    let bm = b.graph.get("modules");
    let part = if am != bm {
      "modules"
    } else if a.graph.get("redirects") != b.graph.get("redirects") {
      "redirects"
    } else if a.graph.get("packages") != b.graph.get("packages") {
      "packages"
    } else {
      "other"
    };
    return Some((
      format!("graph/{part}"),
      format!("baseline={}\nthis run={}", a.graph, b.graph),
    ));
  }
  if a.locker_remote != b.locker_remote {
    return Some((
      "lockfile-contents".into(),
      format!("baseline={:?}\nthis run={:?}", a.locker_remote, b.locker_remote),
    ));
  }
  if a.locker_sets != b.locker_sets {
    return Some((
      "lockfile-writes".into(),
      format!("baseline={:?}\nthis run={:?}", a.locker_sets, b.locker_sets),
    ));
  }
  None
}

pub fn check(case: &Case, _tier: Tier) -> Outcome {
  let mut o = Outcome::default();
  let fanned;
  let b = match case.deferred_fan {
    Some(k) => {
      fanned = with_fan(&case.build, k);
      o.label("deferred-code-loads-behind-asset-loads");
      &fanned
    }
    None => &case.build,
  };
  let jsr = case.jsr.as_ref();
  let (base, _) = run_with(b, jsr, None).expect("ungated");
  let mut contested = 0;
  for s in &case.schedules {
    match run_with(b, jsr, Some(s)) {
      Ok((obs, stats)) => {
        contested += stats.contested;
        if let Some((sig, msg)) = diff_observed(&base, &obs) {
          o.violate(format!("C04/schedule/{sig}"), format!("schedule {s:?}\n{msg}"));
        }
      }
      Err(stats) => {
        o.violate(
          "C04/build-does-not-finish-under-schedule",
          format!("schedule {s:?}: {stats:?}"),
        );
      }
    }
  }
  for i in 0..case.reruns {
    let (again, _) = run_with(b, jsr, None).expect("ungated");
    if let Some((sig, msg)) = diff_observed(&base, &again) {
      o.violate(format!("C04/rerun/{sig}"), format!("re-run {i}\n{msg}"));
    }
  }
  let dyn_branches: BTreeSet<String> = base
    .graph
    .get("modules")
    .and_then(|m| m.as_array())
    .map(|mods| {
      mods
        .iter()
        .flat_map(|m| {
          m.get("dependencies")
            .and_then(|d| d.as_array())
            .cloned()
            .unwrap_or_default()
        })
        .filter(|d| d.get("isDynamic").and_then(|v| v.as_bool()).unwrap_or(false))
        .filter_map(|d| d.get("specifier").and_then(|s| s.as_str()).map(|s| s.to_string()))
        .collect()
    })
    .unwrap_or_default();
  if contested > 0 {
    o.label("contested-decision-point");
  }
  if dyn_branches.len() >= 2 {
    o.label(">=2-dynamic-branches");
  }
  if !base.locker_sets.is_empty() {
    o.label("lockfile-writes");
  }
  if let Some(j) = jsr {
    o.label("jsr-registry");
    if j.prefer_cached {
      o.label("prefer-cached");
    }
  }
  o.nontrivial = contested > 0 || dyn_branches.len() >= 2;
  o
}

/// Exhaustive layer: every completion order of small worlds.
pub fn extra(tier: Tier, seed: u64) -> ExtraReport {
  use proptest::test_runner::{Config, RngAlgorithm, TestRng, TestRunner};
  let mut rep = ExtraReport::default();
  let n_worlds = tier.pick(120, 1500);
  let budget = tier.pick(300, 3000);
  let mut seed_bytes = [9u8; 32];
  seed_bytes[..8].copy_from_slice(&seed.to_le_bytes());
  let mut runner = TestRunner::new_with_rng(
    Config::default(),
    TestRng::from_seed(RngAlgorithm::ChaCha, &seed_bytes),
  );
  let strategy = build_case_strategy(GenParams {
    max_entries: 6,
    max_items: 4,
    ..Default::default()
  });
  let mut finished = 0usize;
  let mut unfinished = 0usize;
  let mut sigs = BTreeSet::new();
  for _ in 0..n_worlds {
    let b = strategy.new_tree(&mut runner).unwrap().current();
    let Ok((base, _)) = run(&b, None) else { continue };
    // DFS over choice sequences; choices are encoded so that idx(c, n) = k
    let mut prefix: Vec<usize> = Vec::new();
    let mut runs = 0usize;
    let mut complete = true;
    let mut any_contested = false;
    loop {
      runs += 1;
      if runs > budget {
        complete = false;
        break;
      }
      // encode prefix: we need the option counts, obtained from the run
      // itself; run with raw indices through a schedule of exact picks
      let sched = ExactSchedule { picks: prefix.clone() };
      let (obs, options) = match run_exact(&b, &sched) {
        Ok(x) => x,
        Err(_) => {
          let case = Case { build: b.clone(), schedules: vec![], reruns: 0, jsr: None, deferred_fan: None };
          if sigs.insert("deadlock".to_string()) {
            rep.violations.push((
              Violation { sig: "C04/build-does-not-finish-under-schedule".into(), msg: format!("exact picks {prefix:?}") },
              serde_json::to_value(&case).unwrap(),
            ));
          }
          break;
        }
      };
      rep.evaluations += 1;
      if options.iter().any(|n| *n >= 2) {
        any_contested = true;
      }
      if let Some((sig, msg)) = diff_observed(&base, &obs) {
        // express the schedule in the replayable encoding
        let choices: Vec<u16> = prefix
          .iter()
          .zip(options.iter())
          .map(|(k, n)| (((*k * 65536) + 32768) / (*n).max(1)).min(65535) as u16)
          .collect();
        let case = Case {
          build: b.clone(),
          schedules: vec![Schedule { choices, tail: 0 }],
          reruns: 0,
          jsr: None,
          deferred_fan: None,
        };
        if sigs.insert(sig.clone()) {
          rep.violations.push((
            Violation { sig: format!("C04/schedule/{sig}"), msg },
            serde_json::to_value(&case).unwrap(),
          ));
        }
      }
      // next prefix in DFS order: extend with zeros implicitly; increment
      let mut full: Vec<usize> = prefix.clone();
      full.resize(options.len(), 0);
      // find the last position that can be incremented
      let mut pos = full.len();
      loop {
        if pos == 0 {
          break;
        }
        pos -= 1;
        if full[pos] + 1 < options[pos] {
          full[pos] += 1;
          full.truncate(pos + 1);
          break;
        }
        if pos == 0 {
          full.clear();
        }
      }
      if full.is_empty() {
        break;
      }
      prefix = full;
    }
    if complete {
      finished += 1;
    } else {
      unfinished += 1;
    }
    if any_contested {
      let case = Case { build: b.clone(), schedules: vec![], reruns: 0, jsr: None, deferred_fan: None };
      let j = serde_json::to_value(&case).unwrap();
      rep.nontrivial_hashes.push(crate::runner::hash_json(&j));
      if rep.samples.is_empty() {
        rep.samples.push(j);
      }
    }
  }
  *rep.labels.entry("exhaustive-worlds-finished".into()).or_insert(0) += finished as u64;
  *rep.labels.entry("exhaustive-worlds-budget-hit".into()).or_insert(0) += unfinished as u64;
  rep.exhaustive = Some(unfinished == 0);
  rep.notes.push(format!(
    "schedule DFS: {finished} worlds explored completely, {unfinished} hit the budget of {budget} runs"
  ));
  rep
}

pub struct ExactSchedule {
  pub picks: Vec<usize>,
}

fn run_exact(
  b: &BuildCase,
  sched: &ExactSchedule,
) -> Result<(Observed, Vec<usize>), ()> {
  // first learn the option counts along this path with a probing run
  let mut choices: Vec<u16> = Vec::new();
  let mut options: Vec<usize>;
  loop {
    let s = Schedule { choices: choices.clone(), tail: 0 };
    let (_, stats) = run(b, Some(&s)).map_err(|_| ())?;
    options = stats.options.clone();
    if choices.len() >= sched.picks.len() || choices.len() >= options.len() {
      break;
    }
    let i = choices.len();
    let n = options[i].max(1);
    let k = sched.picks[i].min(n - 1);
    choices.push((((k * 65536) + 32768) / n).min(65535) as u16);
  }
  let s = Schedule { choices, tail: 0 };
  let (obs, stats) = run(b, Some(&s)).map_err(|_| ())?;
  Ok((obs, stats.options))
}
