//! C19 — incremental builds and reloads converge to the from-scratch graph.
//! Oracle: differential against `build(all roots at once)` on the same (or
//! the edited) sources, plus "untouched entries stay byte-identical".

use crate::harness::{build_into, parse_imports, parse_roots, BuildEnv, Schedule, WorldLoader};
use crate::obs;
use crate::runner::{idx, Outcome, PropSpec, Tier};
use crate::world::{self, build_case_strategy, BuildCase, Entry, GenParams, Lang, RawEntry, World};
use deno_graph::ModuleGraph;
use proptest::prelude::*;
use serde::{Deserialize, Serialize};
use std::collections::BTreeSet;

#[derive(Clone, Debug, Serialize, Deserialize)]
pub enum Edit {
  /// replace the source of the entry chosen by `target`
  Replace { target: u16, entry: Entry },
  /// the file disappears
  Delete { target: u16 },
}

#[derive(Clone, Debug, Serialize, Deserialize)]
pub struct Case {
  pub build: BuildCase,
  /// build step of each root (roots of one step are built together)
  pub steps: Vec<u8>,
  /// index of a known root to build again at the end
  pub repeat: u16,
  pub edits: Vec<Vec<Edit>>,
  /// name a module to reload by the head of the longest redirect chain the
  /// graph records for it instead of by its final specifier
  #[serde(default)]
  pub reload_via_redirect: bool,
  /// restrict the world (in every version) to the sub-domain of TypeScript /
  /// JavaScript modules and JSON files in which every import of a JSON file
  /// carries `type: "json"` (see `json_subdomain`)
  #[serde(default)]
  pub json_world: bool,
  /// restrict the world (in every version) to the sub-domain of code modules
  /// in which a structural class of targets is imported as a text / bytes
  /// asset by every import (see `asset_subdomain`); such targets may be roots
  #[serde(default)]
  pub asset_world: bool,
  /// a registry and an entry module importing from it, added by a build of
  /// its own after a first build of a module that imports `npm:` specifiers
  /// the packages import too; compared with building both at once
  #[serde(default)]
  pub jsr: Option<crate::props::c07::JsrPart>,
}

fn params(tier: Tier) -> GenParams {
  GenParams {
    max_entries: tier.pick(8, 12),
    max_items: tier.pick(5, 7),
    // the attribute class of a target must not change between versions of
    // the sources (the proviso, over time): no attributes, no source maps
    attrs: false,
    source_maps: false,
    // more redirect chains (reload may name a module by a redirecting URL)
    w_redirect: 4,
    ..Default::default()
  }
}

fn edit_strategy(p: GenParams) -> impl Strategy<Value = (u16, Option<(u16, RawEntry)>)> {
  (
    any::<u16>(),
    proptest::option::weighted(0.8, (any::<u16>(), world::raw_entry(&p))),
  )
}

pub fn spec() -> PropSpec<Case> {
  PropSpec {
    id: "C19",
    strategy: |tier| {
      let p = params(tier);
      let p2 = p.clone();
      (
        build_case_strategy(p.clone()),
        proptest::collection::vec(any::<u16>(), 0..=2),
        proptest::collection::vec(0..3u8, 4),
        any::<u16>(),
        proptest::collection::vec(
          proptest::collection::vec(edit_strategy(p.clone()), 1..=2),
          0..=3,
        ),
      )
        .prop_map(move |(mut build, extra_roots, steps, repeat, raw_edits)| {
          world::break_redirect_cycles(&mut build.world);
          build.opts.is_dynamic = false;
          build.opts.skip_dynamic_deps = false;
          if build.opts.kind == 1 {
            build.imports.clear();
          }
          // more roots so that partitions are interesting
          let keys: Vec<String> = build.world.entries.keys().cloned().collect();
          for r in extra_roots {
            let k = keys[idx(r, keys.len())].clone();
            if !build.roots.contains(&k) {
              build.roots.push(k);
            }
          }
          let mut plain: Vec<String> = build.roots.clone();
          for (_, specs) in &build.imports {
            plain.extend(specs.iter().cloned());
          }
          world::unify_attrs(&mut build.world, &plain);
          // edits only replace module sources (Src/Text entries), never the
          // redirect structure
          let editable: Vec<String> = build
            .world
            .entries
            .iter()
            .filter(|(_, e)| matches!(e, Entry::Src { .. } | Entry::Text { .. }))
            .map(|(k, _)| k.clone())
            .collect();
          let mut edits = Vec::new();
          if !editable.is_empty() {
            for round in raw_edits {
              let mut es = Vec::new();
              for (target, repl) in round {
                let url = &editable[idx(target, editable.len())];
                match repl {
                  Some((_, raw)) => {
                    let entry = match world::build_one(&p2, url, &raw) {
                      e @ (Entry::Src { .. } | Entry::Text { .. }) => e,
                      _ => Entry::Src {
                        lang: world::lang_for(url),
                        items: vec![],
                        headers: vec![],
                      },
                    };
                    es.push(Edit::Replace { target, entry })
                  }
                  None => es.push(Edit::Delete { target }),
                }
              }
              edits.push(es);
            }
          }
          Case {
            build,
            steps,
            repeat,
            edits,
            reload_via_redirect: repeat % 2 == 1,
            json_world: repeat % 8 >= 6,
            asset_world: repeat % 8 == 5,
            jsr: None,
          }
        })
        .prop_flat_map(|case| {
          (Just(case), proptest::option::weighted(0.1, crate::props::c07::jsr_part_strategy()))
        })
        .prop_map(|(mut case, jsr)| {
          case.jsr = jsr;
          case
        })
        .boxed()
    },
    check,
    cases: |tier| tier.pick(60_000, 1_200_000),
    rule: "generated worlds with 1-5 roots; the roots are partitioned into up to three successive build() calls, a known root is built again, then 0-3 rounds of source edits (replace a module's source, delete a file) each followed by reload() of every specifier whose served source changed; every other history shares one CapturingModuleAnalyzer across its builds and reloads (named by its final specifier or, every other case, by the head of the longest redirect chain the graph records for it); non-trivial = (the partition has >= 2 non-empty steps and the graph has >= 3 modules) or (an edit changes the dependency set of a module present in the graph); distinct = distinct case JSON",
    assumptions: &[
      "same-attribute proviso by construction (re-established after every edit; modules whose source changes as a consequence are reloaded too)",
      "no `type` attributes and no source-map URLs in C19 worlds (the class of a target would otherwise change with an edit of its importer), except in the JSON sub-domain (a quarter of the cases): only JS / TS modules and .json files, JSON files are never roots and every import of one carries `type: \"json\"` in every version",
      "edits change module sources only, not redirects; no redirect cycles; is_dynamic and skip_dynamic_deps at their defaults; no configured imports for code-only graphs",
      "a divergence on a specifier whose acceptance depends on the request context (unknown / JSON media type) is reported once under its own signature",
      "error entries are compared by Display text (referrers legitimately differ between a reload and a fresh build)",
    ],
    crash_is_violation: false,
    extra: None,
    level: "exploration",
  }
}

fn build_steps(
  world: &World,
  steps: &[Vec<String>],
  case: &BuildCase,
) -> ModuleGraph {
  let mut graph = ModuleGraph::new(case.opts.graph_kind());
  let mut first = true;
  for roots in steps {
    let loader = WorldLoader::from_world(world);
    build_into(
      &mut graph,
      parse_roots(roots),
      if first {
        parse_imports(&case.imports)
      } else {
        vec![]
      },
      BuildEnv {
        loader: &loader,
        opts: &case.opts,
        locker: None,
        npm: None,
        jsr_version_resolver: None,
        prefer_cached: false,
      },
      &Schedule::default(),
      false,
    )
    .expect("ungated build");
    first = false;
  }
  graph
}

pub fn apply_edits(world: &World, edits: &[Edit], roots: &[String], imports: &[(String, Vec<String>)]) -> World {
  let mut w = world.clone();
  let editable: Vec<String> = world
    .entries
    .iter()
    .filter(|(_, e)| matches!(e, Entry::Src { .. } | Entry::Text { .. }))
    .map(|(k, _)| k.clone())
    .collect();
  if editable.is_empty() {
    return w;
  }
  for e in edits {
    match e {
      Edit::Replace { target, entry } => {
        let url = editable[idx(*target, editable.len())].clone();
        // keep the language consistent with the URL the entry is stored at
        let entry = match entry {
          Entry::Src { items, headers, .. } => Entry::Src {
            lang: match world.entries.get(&url) {
              Some(Entry::Src { lang, .. }) => *lang,
              _ => Lang::Js,
            },
            items: items.clone(),
            headers: headers.clone(),
          },
          other => other.clone(),
        };
        w.entries.insert(url, entry);
      }
      Edit::Delete { target } => {
        let url = editable[idx(*target, editable.len())].clone();
        w.entries.remove(&url);
      }
    }
  }
  let mut plain: Vec<String> = roots.to_vec();
  for (_, specs) in imports {
    plain.extend(specs.iter().cloned());
  }
  world::unify_attrs(&mut w, &plain);
  w
}

/// The JSON sub-domain: only JS / TS modules and `.json` files; JSON files
/// are never roots and are imported only by forms that carry `type: "json"`;
/// nothing else (redirects, other media types, attribute-less forms towards
/// JSON, configured imports) exists. The rule is structural, so the attribute
/// class of every target is the same in every version of the sources.
fn json_subdomain(w: &mut World) {
  let is_code = |k: &str| {
    [".ts", ".tsx", ".js", ".jsx", ".mjs", ".mts"].iter().any(|e| k.ends_with(e)) && !k.ends_with(".d.ts")
  };
  let keys: Vec<String> = w.entries.keys().cloned().collect();
  for k in &keys {
    let keep = match w.entries.get(k) {
      Some(Entry::Src { .. }) | Some(Entry::Text { .. }) => is_code(k) || k.ends_with(".json"),
      _ => false,
    };
    if !keep {
      w.entries.remove(k);
    }
  }
  let keys: Vec<String> = w.entries.keys().cloned().collect();
  for k in keys {
    if k.ends_with(".json") {
      // a JSON file (its import items, if any, are never read)
      if let Some(Entry::Src { headers, .. } | Entry::Text { headers, .. }) = w.entries.get_mut(&k) {
        headers.clear();
      }
      continue;
    }
    let Some(Entry::Src { items, headers, .. }) = w.entries.get_mut(&k) else {
      w.entries.remove(&k);
      continue;
    };
    headers.clear();
    items.retain(|it| matches!(it, world::Item::Import { .. } | world::Item::SideEffect { .. } | world::Item::Dynamic { .. } | world::Item::Filler));
    for it in items.iter_mut() {
      if let world::Item::Import { types, .. } | world::Item::Dynamic { types, .. } = it {
        *types = None;
      }
      let (spec, attr) = match it {
        world::Item::Import { spec, attr, .. } | world::Item::SideEffect { spec, attr } | world::Item::Dynamic { spec, attr, .. } => (spec.clone(), attr),
        _ => continue,
      };
      let t = world::resolve_key(&k, &spec);
      *attr = t.ends_with(".json").then(|| "json".to_string());
    }
  }
}

/// The attribute an import of `target` carries in the asset sub-domain.
fn asset_class(target: &str) -> Option<&'static str> {
  if target.contains("/sub/") {
    Some("text")
  } else if target.ends_with(".mjs") || target.ends_with(".mts") {
    Some("bytes")
  } else {
    None
  }
}

/// The asset sub-domain: only JS / TS modules; every import of a target of
/// the structural asset class carries `type: "text"` / `type: "bytes"` (the
/// build enables both), every other import carries none. Asset-class targets
/// may be roots: a root is not an import, so the proviso holds, and the same
/// specifier is then an asset for its importers' builds and a module for its
/// own.
fn asset_subdomain(w: &mut World) {
  let is_code = |k: &str| {
    [".ts", ".tsx", ".js", ".jsx", ".mjs", ".mts"].iter().any(|e| k.ends_with(e)) && !k.ends_with(".d.ts")
  };
  let keys: Vec<String> = w.entries.keys().cloned().collect();
  for k in &keys {
    let keep = matches!(w.entries.get(k), Some(Entry::Src { .. })) && is_code(k);
    if !keep {
      w.entries.remove(k);
    }
  }
  let keys: Vec<String> = w.entries.keys().cloned().collect();
  for k in keys {
    let Some(Entry::Src { items, headers, .. }) = w.entries.get_mut(&k) else { continue };
    headers.clear();
    items.retain(|it| matches!(it, world::Item::Import { .. } | world::Item::SideEffect { .. } | world::Item::Dynamic { .. } | world::Item::Filler));
    for it in items.iter_mut() {
      if let world::Item::Import { types, .. } | world::Item::Dynamic { types, .. } = it {
        *types = None;
      }
      let (spec, attr) = match it {
        world::Item::Import { spec, attr, .. } | world::Item::SideEffect { spec, attr } | world::Item::Dynamic { spec, attr, .. } => (spec.clone(), attr),
        _ => continue,
      };
      let t = world::resolve_key(&k, &spec);
      *attr = asset_class(&t).map(|a| a.to_string());
    }
  }
}

/// Registry packages added by a later build vs built at once with what was
/// there before: serialised graph and the per-package dependency sets.
fn registry_steps(j: &crate::props::c07::JsrPart, kind: deno_graph::GraphKind, o: &mut Outcome) {
  use crate::harness::PlanNpmResolver;
  const PRE: &str = "file:///pre.ts";
  let mut served = std::collections::BTreeMap::new();
  let cache = j.install(&mut served);
  let pre = deno_graph::ModuleSpecifier::parse(PRE).unwrap();
  served.insert(
    pre.clone(),
    crate::harness::Served::Module {
      bytes: b"import \"npm:pkg@1\";\nimport \"npm:other@^2/sub\";\nawait import(\"npm:pkg@^1.2\");\n".to_vec().into(),
      headers: None,
      final_spec: pre,
    },
  );
  let opts = crate::world::Opts {
    npm_resolver: true,
    kind: match kind {
      deno_graph::GraphKind::All => 0,
      deno_graph::GraphKind::CodeOnly => 1,
      deno_graph::GraphKind::TypesOnly => 2,
    },
    ..Default::default()
  };
  let npm = PlanNpmResolver::default();
  let build = |steps: &[Vec<&str>]| {
    let mut graph = ModuleGraph::new(kind);
    for roots in steps {
      let mut loader = WorldLoader::new(served.clone());
      loader.cache = Some(cache.clone());
      build_into(
        &mut graph,
        parse_roots(&roots.iter().map(|r| r.to_string()).collect::<Vec<_>>()),
        vec![],
        BuildEnv {
          loader: &loader,
          opts: &opts,
          locker: None,
          npm: Some(&npm),
          jsr_version_resolver: None,
          prefer_cached: j.prefer_cached,
        },
        &Schedule::default(),
        false,
      )
      .expect("ungated build");
    }
    graph
  };
  let main = crate::props::c07::JSR_MAIN;
  let inc = build(&[vec![PRE], vec![main]]);
  let once = build(&[vec![PRE, main]]);
  o.label("registry-added-by-a-later-build");
  let (a, b) = (obs::graph_json(&inc), obs::graph_json(&once));
  if a != b {
    o.violate(
      "C19/registry/incremental-vs-at-once/graph",
      format!("incremental={a}\nat-once={b}"),
    );
  }
  let deps = |g: &ModuleGraph| -> BTreeSet<String> {
    g.packages
      .packages_with_deps()
      .flat_map(|(nv, deps)| deps.map(move |d| format!("{nv} -> {d}")).collect::<Vec<_>>())
      .collect()
  };
  let (da, db) = (deps(&inc), deps(&once));
  if da != db {
    o.violate(
      "C19/registry/incremental-vs-at-once/package-dependencies",
      format!("only incremental: {:?}\nonly at-once: {:?}", da.difference(&db).collect::<Vec<_>>(), db.difference(&da).collect::<Vec<_>>()),
    );
  }
}

pub fn check(case: &Case, _tier: Tier) -> Outcome {
  let mut o = Outcome::default();
  if let Some(j) = &case.jsr {
    registry_steps(j, case.build.opts.graph_kind(), &mut o);
  }
  let restricted;
  let case = if case.asset_world {
    let mut c = case.clone();
    asset_subdomain(&mut c.build.world);
    c.build.imports.clear();
    c.build.opts.unstable_text = true;
    c.build.opts.unstable_bytes = true;
    c.build.roots.retain(|r| c.build.world.entries.contains_key(r));
    // an asset-class module that some other module imports is a good root
    let imported_assets: Vec<String> = c
      .build
      .world
      .entries
      .keys()
      .filter(|k| asset_class(k).is_some())
      .cloned()
      .collect();
    if let Some(k) = imported_assets.get(idx(c.repeat, imported_assets.len().max(1))) {
      if !c.build.roots.contains(k) {
        c.build.roots.push(k.clone());
      }
    }
    if c.build.roots.is_empty() {
      if let Some(k) = c.build.world.entries.keys().next().cloned() {
        c.build.roots.push(k);
      }
    }
    if c.build.roots.is_empty() {
      let mut c = case.clone();
      c.asset_world = false;
      restricted = c;
      &restricted
    } else {
      c.reload_via_redirect = false;
      c.json_world = false;
      restricted = c;
      o.label("asset-sub-domain");
      &restricted
    }
  } else if case.json_world {
    let mut c = case.clone();
    json_subdomain(&mut c.build.world);
    c.build.imports.clear();
    c.build.roots.retain(|r| c.build.world.entries.contains_key(r) && !r.ends_with(".json"));
    if c.build.roots.is_empty() {
      // any code module will do as a root
      if let Some(k) = c.build.world.entries.keys().find(|k| !k.ends_with(".json")).cloned() {
        c.build.roots.push(k);
      }
    }
    if c.build.roots.is_empty() {
      // nothing to build in the sub-domain: the case runs unrestricted
      let mut c = case.clone();
      c.json_world = false;
      restricted = c;
      &restricted
    } else {
      c.reload_via_redirect = false;
      restricted = c;
      o.label("json-sub-domain");
      &restricted
    }
  } else {
    case
  };
  let b = &case.build;
  // --- (a) partition
  let mut steps: Vec<Vec<String>> = vec![vec![], vec![], vec![]];
  for (i, r) in b.roots.iter().enumerate() {
    let s = case.steps.get(i).copied().unwrap_or(0) as usize % 3;
    steps[s].push(r.clone());
  }
  steps.retain(|s| !s.is_empty());
  let order: Vec<String> = steps.iter().flatten().cloned().collect();
  // the history under test shares one capturing analyser (every other case);
  // the from-scratch builds it is compared with use a fresh default one
  let shared = (case.repeat % 4 < 2).then(|| std::rc::Rc::new(deno_graph::ast::CapturingModuleAnalyzer::default()));
  if shared.is_some() {
    o.label("shared-capturing-analyzer");
  }
  let set_shared = |on: bool| {
    crate::harness::SHARED_ANALYZER.with(|a| *a.borrow_mut() = if on { shared.clone() } else { None });
  };
  set_shared(true);
  let mut inc = build_steps(&b.world, &steps, b);
  set_shared(false);
  let once = build_steps(&b.world, &[order.clone()], b);
  let mut diverged = false;
  for (sig, _, msg) in
    obs::diff_graphs(&b.world, &inc, &once, "incremental", "at-once", None, true)
  {
    diverged = true;
    o.violate(format!("C19/incremental-vs-at-once/{sig}"), msg);
  }
  let ir: Vec<String> = inc.roots.iter().map(|r| r.to_string()).collect();
  let or: Vec<String> = once.roots.iter().map(|r| r.to_string()).collect();
  if ir != or {
    o.violate("C19/roots-differ", format!("incremental={ir:?} at-once={or:?}"));
  }
  // building again with a known root changes nothing
  let before = obs::graph_json(&inc);
  let again = vec![order[idx(case.repeat, order.len())].clone()];
  {
    set_shared(true);
    let loader = WorldLoader::from_world(&b.world);
    build_into(
      &mut inc,
      parse_roots(&again),
      vec![],
      BuildEnv {
        loader: &loader,
        opts: &b.opts,
        locker: None,
        npm: None,
        jsr_version_resolver: None,
        prefer_cached: false,
      },
      &Schedule::default(),
      false,
    )
    .expect("ungated build");
    set_shared(false);
    if obs::graph_json(&inc) != before {
      o.violate("C19/rebuild-of-known-root-changes-graph", format!("root {again:?}"));
    }
    // the statement is about the graph ("changes nothing"); whether the
    // builder asks the loader again is not part of it
    if !loader.log.borrow().is_empty() {
      o.label("rebuild-of-known-root-asks-the-loader-again");
    }
  }
  let multi_step = steps.len() >= 2;
  let mut dep_change = false;

  // --- (b) edits + reload
  if !diverged {
    let mut world = b.world.clone();
    let mut graph = inc;
    for round in &case.edits {
      let mut new_world = apply_edits(&world, round, &b.roots, &b.imports);
      if case.json_world {
        json_subdomain(&mut new_world);
      }
      if case.asset_world {
        asset_subdomain(&mut new_world);
      }
      let changed: Vec<String> = world
        .entries
        .keys()
        .chain(new_world.entries.keys())
        .filter(|k| world.entries.get(*k) != new_world.entries.get(*k))
        .cloned()
        .collect::<BTreeSet<_>>()
        .into_iter()
        .collect();
      // reload those the graph has an entry for
      let known: BTreeSet<String> = obs::entries(&graph, false).keys().cloned().collect();
      let to_reload: Vec<String> =
        changed.iter().filter(|c| known.contains(*c)).cloned().collect();
      // the caller may name a module by a specifier that redirects to it
      let reload_names: Vec<String> = to_reload
        .iter()
        .map(|t| {
          if !case.reload_via_redirect {
            return t.clone();
          }
          let mut best: Option<(usize, String)> = None;
          for src in graph.redirects.keys() {
            let mut cur = src.clone();
            let mut hops = 0;
            while let Some(n) = graph.redirects.get(&cur) {
              cur = n.clone();
              hops += 1;
              if hops > 40 {
                break;
              }
            }
            if cur.as_str() == t && best.as_ref().map(|b| hops > b.0).unwrap_or(true) {
              best = Some((hops, src.to_string()));
            }
          }
          match best {
            Some((hops, src)) => {
              if hops >= 2 {
                o.label("reload-named-through-two-redirects");
              }
              src
            }
            None => t.clone(),
          }
        })
        .collect();
      let before_mods = obs::serialized_modules(&graph);
      let before_deps: BTreeSet<(String, String, String, bool)> = obs::code_edges(&graph);
      let loader = WorldLoader::from_world(&new_world);
      set_shared(true);
      build_into(
        &mut graph,
        parse_roots(&reload_names),
        vec![],
        BuildEnv {
          loader: &loader,
          opts: &b.opts,
          locker: None,
          npm: None,
          jsr_version_resolver: None,
          prefer_cached: false,
        },
        &Schedule::default(),
        true,
      )
      .expect("ungated reload");
      set_shared(false);
      let fresh = build_steps(&new_world, &[order.clone()], b);
      let scope: BTreeSet<String> =
        obs::entries(&fresh, false).keys().cloned().collect();
      let mut round_diverged = false;
      for (sig, _, msg) in obs::diff_graphs(
        &new_world,
        &graph,
        &fresh,
        "reloaded",
        "fresh",
        Some(&scope),
        true,
      ) {
        // entries and redirects outside the fresh graph may remain
        if sig.starts_with("redirect/only-in-reloaded") {
          continue;
        }
        round_diverged = true;
        o.violate(format!("C19/reload-vs-fresh/{sig}"), msg);
      }
      // untouched entries: not in the fresh graph, not reloaded
      let after_mods = obs::serialized_modules(&graph);
      for (k, v) in &before_mods {
        if scope.contains(k) || to_reload.contains(k) {
          continue;
        }
        match after_mods.get(k) {
          Some(w) if w == v => {}
          other => {
            round_diverged = true;
            // an answer whose acceptance depends on the request context may
            // be decided again by a later request (the recorded finding)
            match obs::acceptance_is_context_sensitive(&new_world, k)
              .or_else(|| obs::acceptance_is_context_sensitive(&world, k))
            {
              Some(class) => o.violate(
                format!("C19/reload-vs-fresh/context-sensitive-acceptance/{class}"),
                format!("(entry outside the fresh graph decided again) {k}: before={v} after={other:?}"),
              ),
              None => o.violate(
                "C19/unreachable-entry-altered",
                format!("{k}: before={v} after={other:?}"),
              ),
            }
          }
        }
      }
      if obs::code_edges(&graph) != before_deps && !to_reload.is_empty() {
        dep_change = true;
      }
      if round_diverged {
        break;
      }
      world = new_world;
    }
  }
  if multi_step {
    o.label("multi-step-partition");
  }
  if dep_change {
    o.label("edit-changed-dependencies");
  }
  if !case.edits.is_empty() {
    o.label("has-edits");
  }
  o.nontrivial =
    (multi_step && once.modules().count() >= 3) || dep_change;
  o
}
