//! C10 — fast-check output has no executable logic and needs no type
//! inference. Oracle: a grammar (validity predicate) over the re-parsed
//! emitted AST; diagnostic side: a package seeded with a non-inferable public
//! declaration must produce diagnostics and no output.

use crate::fc;
use crate::props::c09::{self, case_strategy, emitted_modules, Case};
use crate::runner::{ExtraReport, Outcome, PropSpec, Tier};
use deno_ast::swc::ast::*;
use deno_graph::ModuleGraph;

pub fn spec() -> PropSpec<Case> {
  PropSpec {
    id: "C10",
    strategy: case_strategy,
    check,
    cases: |tier| tier.pick(30_000, 600_000),
    rule: "generated packages mixing fully annotated, trivially inferable (literal initialisers, void bodies, defaulted parameters) and deliberately non-inferable declarations of every declaration and member kind (functions, methods, getters, constructors with super calls, properties, TS-private and #private members, namespaces), plus the fast-check spec corpus; non-trivial = an emitted module contains at least one function-like and one transformed initialiser, or the package was seeded with a non-inferable public declaration; distinct = distinct case JSON",
    assumptions: &[
      "'literal-like' is the closed grammar: literals, identifiers, this, member access, array / object literals, unary / update / binary / conditional / template expressions, parentheses, as / satisfies / non-null / const assertions, await, new expressions of identifiers, calls of `Symbol`, and nested function forms that satisfy the rules themselves",
      "an expression-bodied arrow function whose body is literal-like stands in for its return annotation",
      "ambient declarations (declare, declaration files) are checked for absence of bodies, initialisers other than literals, and decorators only",
      "the implementation signature of an overloaded function is rewritten to an any-typed catch-all by design",
    ],
    crash_is_violation: false,
    extra: Some(extra),
    level: "exploration",
  }
}

struct G<'a> {
  o: &'a mut Outcome,
  spec: String,
  text: &'a str,
  functions: usize,
  initializers: usize,
}

impl G<'_> {
  fn bad(&mut self, sig: &str, what: impl std::fmt::Display) {
    let text = self.text;
    self.o.violate(
      format!("C10/{sig}"),
      format!("{}: {what}\n{text}", self.spec),
    );
  }

  fn is_placeholder(e: &Expr) -> bool {
    // `{} as never`, `[] as never`, `({} as never)`, `...[] as never[]`
    match e {
      Expr::Paren(p) => Self::is_placeholder(&p.expr),
      Expr::TsAs(a) => {
        let inner = matches!(&*a.expr, Expr::Object(o) if o.props.is_empty())
          || matches!(&*a.expr, Expr::Array(arr) if arr.elems.is_empty());
        inner
      }
      _ => false,
    }
  }

  fn literal_like(&mut self, e: &Expr, depth: usize) -> bool {
    if depth > 40 {
      return false;
    }
    match e {
      Expr::Lit(_) | Expr::Ident(_) | Expr::This(_) => true,
      Expr::Tpl(t) => t.exprs.iter().all(|x| self.literal_like(x, depth + 1)),
      Expr::Member(m) => {
        self.literal_like(&m.obj, depth + 1)
          && match &m.prop {
            MemberProp::Computed(c) => self.literal_like(&c.expr, depth + 1),
            _ => true,
          }
      }
      Expr::Array(a) => a
        .elems
        .iter()
        .flatten()
        .all(|x| self.literal_like(&x.expr, depth + 1)),
      Expr::Object(o) => o.props.iter().all(|p| match p {
        PropOrSpread::Spread(s) => self.literal_like(&s.expr, depth + 1),
        PropOrSpread::Prop(p) => match &**p {
          Prop::Shorthand(_) => true,
          Prop::KeyValue(kv) => self.literal_like(&kv.value, depth + 1),
          Prop::Method(m) => {
            self.function(&m.function, "object-method", false, true);
            true
          }
          Prop::Getter(g) => {
            if g.type_ann.is_none() {
              self.bad("return-type-missing/object-getter", "getter without return type");
            }
            self.body(g.body.as_ref(), "object-getter");
            true
          }
          Prop::Setter(s) => {
            self.empty_body(s.body.as_ref(), "object-setter");
            true
          }
          Prop::Assign(_) => false,
        },
      }),
      Expr::Unary(u) => self.literal_like(&u.arg, depth + 1),
      Expr::Update(u) => self.literal_like(&u.arg, depth + 1),
      Expr::Bin(b) => {
        self.literal_like(&b.left, depth + 1) && self.literal_like(&b.right, depth + 1)
      }
      Expr::Cond(c) => {
        self.literal_like(&c.test, depth + 1)
          && self.literal_like(&c.cons, depth + 1)
          && self.literal_like(&c.alt, depth + 1)
      }
      Expr::Paren(p) => self.literal_like(&p.expr, depth + 1),
      Expr::TsAs(a) => self.literal_like(&a.expr, depth + 1),
      Expr::TsSatisfies(a) => self.literal_like(&a.expr, depth + 1),
      Expr::TsNonNull(a) => self.literal_like(&a.expr, depth + 1),
      Expr::TsConstAssertion(a) => self.literal_like(&a.expr, depth + 1),
      Expr::TsTypeAssertion(a) => self.literal_like(&a.expr, depth + 1),
      Expr::Await(a) => self.literal_like(&a.arg, depth + 1),
      Expr::New(n) => {
        matches!(&*n.callee, Expr::Ident(_) | Expr::Member(_))
          && n
            .args
            .iter()
            .flatten()
            .all(|a| self.literal_like(&a.expr, depth + 1))
      }
      Expr::Call(c) => {
        // `Symbol()` / `Symbol("x")` / `Symbol.for("x")` are kept for unique symbols
        let is_symbol = match &c.callee {
          Callee::Expr(e) => match &**e {
            Expr::Ident(i) => i.sym == "Symbol",
            Expr::Member(m) => matches!(&*m.obj, Expr::Ident(i) if i.sym == "Symbol"),
            _ => false,
          },
          _ => false,
        };
        is_symbol && c.args.iter().all(|a| self.literal_like(&a.expr, depth + 1))
      }
      Expr::Fn(f) => {
        self.function(&f.function, "function-expression", false, true);
        true
      }
      Expr::Arrow(a) => {
        self.arrow(a);
        true
      }
      Expr::Class(_) => false,
      _ => false,
    }
  }

  fn initializer(&mut self, e: &Expr, what: &str) {
    self.initializers += 1;
    if Self::is_placeholder(e) {
      return;
    }
    if !self.literal_like(e, 0) {
      self.bad(&format!("initializer-not-literal-like/{what}"), format!("{what} keeps a non-literal initialiser"));
    }
  }

  fn empty_body(&mut self, b: Option<&BlockStmt>, what: &str) {
    if let Some(b) = b {
      if !b.stmts.is_empty() {
        self.bad(&format!("body-not-erased/{what}"), format!("{what} keeps statements"));
      }
    }
  }

  fn body(&mut self, b: Option<&BlockStmt>, what: &str) {
    let Some(b) = b else { return };
    match b.stmts.as_slice() {
      [] => {}
      [Stmt::Return(r)] => match &r.arg {
        Some(e) if Self::is_placeholder(e) => {}
        _ => self.bad(&format!("body-not-erased/{what}"), format!("{what} returns something other than the placeholder")),
      },
      _ => self.bad(&format!("body-not-erased/{what}"), format!("{what} keeps {} statements", b.stmts.len())),
    }
  }

  fn param_pat(&mut self, p: &Pat, what: &str) {
    match p {
      Pat::Ident(i) => {
        if i.type_ann.is_none() {
          self.bad(&format!("parameter-without-type/{what}"), format!("parameter `{}`", i.id.sym));
        }
      }
      Pat::Assign(a) => {
        // `x = <literal-like>` stands in for the annotation
        let annotated = matches!(&*a.left, Pat::Ident(i) if i.type_ann.is_some());
        if !annotated {
          let right = a.right.clone();
          if !self.literal_like(&right, 0) {
            self.bad(&format!("parameter-without-type/{what}"), "defaulted parameter with a non-literal default and no annotation");
          }
        }
      }
      Pat::Rest(r) => {
        if r.type_ann.is_none() {
          self.bad(&format!("parameter-without-type/{what}"), "rest parameter");
        }
      }
      Pat::Array(a) => {
        if a.type_ann.is_none() {
          self.bad(&format!("parameter-without-type/{what}"), "array pattern parameter");
        }
      }
      Pat::Object(o) => {
        if o.type_ann.is_none() {
          self.bad(&format!("parameter-without-type/{what}"), "object pattern parameter");
        }
      }
      _ => {}
    }
  }

  fn function(&mut self, f: &Function, what: &str, ambient: bool, need_return: bool) {
    self.functions += 1;
    if !f.decorators.is_empty() {
      self.bad("decorator-kept", format!("{what}"));
    }
    for p in &f.params {
      if !p.decorators.is_empty() {
        self.bad("decorator-kept", format!("{what} parameter"));
      }
      if !ambient {
        self.param_pat(&p.pat, what);
      }
    }
    if ambient {
      if f.body.is_some() {
        self.bad(&format!("ambient-with-body/{what}"), what);
      }
      return;
    }
    if need_return && f.return_type.is_none() && f.body.is_some() {
      self.bad(&format!("return-type-missing/{what}"), format!("{what} has a body but no return type"));
    }
    self.body(f.body.as_ref(), what);
  }

  fn arrow(&mut self, a: &ArrowExpr) {
    self.functions += 1;
    for p in &a.params {
      self.param_pat(p, "arrow");
    }
    match &*a.body {
      BlockStmtOrExpr::BlockStmt(b) => {
        if a.return_type.is_none() {
          self.bad("return-type-missing/arrow", "block-bodied arrow without return type");
        }
        self.body(Some(b), "arrow");
      }
      BlockStmtOrExpr::Expr(e) => {
        if Self::is_placeholder(e) {
          if a.return_type.is_none() {
            self.bad("return-type-missing/arrow", "placeholder-bodied arrow without return type");
          }
        } else if !self.literal_like(e, 0) {
          self.bad("body-not-erased/arrow", "arrow keeps a non-literal expression body");
        }
      }
    }
  }

  fn class(&mut self, c: &Class, ambient: bool) {
    if !c.decorators.is_empty() {
      self.bad("decorator-kept", "class");
    }
    for m in &c.body {
      match m {
        ClassMember::Constructor(k) => {
          self.functions += 1;
          for p in &k.params {
            match p {
              ParamOrTsParamProp::Param(p) => {
                if !p.decorators.is_empty() {
                  self.bad("decorator-kept", "constructor parameter");
                }
                if !ambient && k.accessibility != Some(Accessibility::Private) {
                  self.param_pat(&p.pat, "constructor");
                }
              }
              ParamOrTsParamProp::TsParamProp(_) => {
                if !ambient {
                  self.bad("parameter-property-kept", "constructor keeps a parameter property");
                }
              }
            }
          }
          if let Some(b) = &k.body {
            if ambient {
              self.bad("ambient-with-body/constructor", "constructor");
            }
            for s in &b.stmts {
              let ok = match s {
                Stmt::Expr(e) => match &*e.expr {
                  Expr::Call(c) => {
                    matches!(c.callee, Callee::Super(_))
                      && c.args.iter().all(|a| Self::is_placeholder(&a.expr))
                  }
                  _ => false,
                },
                _ => false,
              };
              if !ok {
                self.bad("body-not-erased/constructor", "constructor keeps a statement other than a placeholder super call");
              }
            }
          }
        }
        ClassMember::Method(m) => {
          if !ambient && m.accessibility == Some(Accessibility::Private) {
            self.bad("ts-private-member-not-reduced/method", format!("private method kept"));
          }
          match m.kind {
            MethodKind::Setter => {
              self.functions += 1;
              for p in &m.function.params {
                if !ambient {
                  self.param_pat(&p.pat, "setter");
                }
              }
              self.empty_body(m.function.body.as_ref(), "setter");
            }
            MethodKind::Getter => self.function(&m.function, "getter", ambient, true),
            MethodKind::Method => self.function(&m.function, "method", ambient, true),
          }
        }
        ClassMember::PrivateMethod(_) => self.bad("es-private-member-kept", "#private method"),
        ClassMember::PrivateProp(p) => {
          let marker = p.key.name == "private" && p.value.is_none();
          if !marker {
            self.bad("es-private-member-kept", format!("#{}", p.key.name));
          }
        }
        ClassMember::ClassProp(p) => {
          if !p.decorators.is_empty() {
            self.bad("decorator-kept", "class property");
          }
          if !ambient && p.accessibility == Some(Accessibility::Private) {
            let any = p
              .type_ann
              .as_ref()
              .map(|t| matches!(&*t.type_ann, TsType::TsKeywordType(k) if k.kind == TsKeywordTypeKind::TsAnyKeyword))
              .unwrap_or(false);
            if !any || p.value.is_some() {
              self.bad("ts-private-member-not-reduced/property", "private property is not an any-typed declaration");
            }
          } else if let Some(v) = &p.value {
            if ambient {
              if !matches!(&**v, Expr::Lit(_) | Expr::Unary(_) | Expr::Tpl(_)) {
                self.bad("ambient-with-initializer", "class property");
              }
            } else {
              self.initializer(v, "class-property");
            }
          } else if !ambient && p.type_ann.is_none() {
            self.bad("property-without-type", "class property without type and value");
          }
        }
        ClassMember::AutoAccessor(a) => {
          if !a.decorators.is_empty() {
            self.bad("decorator-kept", "auto accessor");
          }
          if matches!(a.key, Key::Private(_)) {
            self.bad("es-private-member-kept", "#private accessor");
          }
          if let Some(v) = &a.value {
            self.initializer(v, "auto-accessor");
          }
        }
        ClassMember::StaticBlock(_) => self.bad("static-block-kept", "static block"),
        ClassMember::TsIndexSignature(_) | ClassMember::Empty(_) => {}
      }
    }
  }

  fn decl(&mut self, d: &Decl, ambient: bool) {
    match d {
      Decl::Class(c) => self.class(&c.class, ambient || c.declare),
      Decl::Fn(f) => self.function(&f.function, "function", ambient || f.declare, true),
      Decl::Var(v) => {
        let amb = ambient || v.declare;
        for d in &v.decls {
          match &d.init {
            None => {
              let annotated = matches!(&d.name, Pat::Ident(i) if i.type_ann.is_some());
              if !annotated && !amb {
                self.bad("variable-without-type", "variable without type and initialiser");
              }
            }
            Some(init) => {
              if amb {
                if !matches!(&**init, Expr::Lit(_) | Expr::Unary(_) | Expr::Tpl(_)) {
                  self.bad("ambient-with-initializer", "variable");
                }
              } else {
                let annotated = matches!(&d.name, Pat::Ident(i) if i.type_ann.is_some());
                if !annotated && Self::is_placeholder(init) {
                  self.bad("variable-without-type", "placeholder initialiser without annotation");
                }
                let before = self.o.violations.len();
                self.initializer(init, "variable");
                if self.o.violations.len() > before {
                  let name = match &d.name {
                    Pat::Ident(i) => i.id.sym.to_string(),
                    _ => "<pattern>".into(),
                  };
                  let last = self.o.violations.last_mut().unwrap();
                  last.msg = format!("variable `{name}`: {}", last.msg);
                }
              }
            }
          }
        }
      }
      Decl::Using(_) => self.bad("using-kept", "using declaration"),
      Decl::TsModule(m) => {
        let amb = ambient || m.declare;
        if let Some(body) = &m.body {
          self.ns_body(body, amb);
        }
      }
      Decl::TsInterface(_) | Decl::TsTypeAlias(_) | Decl::TsEnum(_) => {}
    }
  }

  fn ns_body(&mut self, b: &TsNamespaceBody, ambient: bool) {
    match b {
      TsNamespaceBody::TsModuleBlock(block) => {
        for item in &block.body {
          self.module_item(item, ambient);
        }
      }
      TsNamespaceBody::TsNamespaceDecl(d) => self.ns_body(&d.body, ambient),
    }
  }

  fn module_item(&mut self, item: &ModuleItem, ambient: bool) {
    match item {
      ModuleItem::ModuleDecl(md) => match md {
        ModuleDecl::ExportDecl(e) => self.decl(&e.decl, ambient),
        ModuleDecl::ExportDefaultDecl(e) => match &e.decl {
          DefaultDecl::Class(c) => self.class(&c.class, ambient),
          DefaultDecl::Fn(f) => self.function(&f.function, "function", ambient, true),
          DefaultDecl::TsInterfaceDecl(_) => {}
        },
        ModuleDecl::ExportDefaultExpr(e) => self.initializer(&e.expr, "default-export"),
        _ => {}
      },
      ModuleItem::Stmt(Stmt::Decl(d)) => self.decl(d, ambient),
      ModuleItem::Stmt(Stmt::Empty(_)) => {}
      ModuleItem::Stmt(other) => {
        let kind = match other {
          Stmt::Expr(_) => "expression-statement",
          Stmt::If(_) => "if",
          Stmt::For(_) | Stmt::ForIn(_) | Stmt::ForOf(_) | Stmt::While(_) | Stmt::DoWhile(_) => "loop",
          Stmt::Block(_) => "block",
          Stmt::Try(_) => "try",
          _ => "other",
        };
        self.bad(&format!("statement-survives/{kind}"), "a statement other than a declaration survives");
      }
    }
  }
}

/// Returns (functions, initialisers) seen.
pub fn check_emitted(
  spec: &deno_graph::ModuleSpecifier,
  emitted: &str,
  mt: deno_graph::MediaType,
  o: &mut Outcome,
) -> (usize, usize) {
  let Ok(parsed) = fc::parse(spec, emitted, mt) else {
    return (0, 0); // C09 owns parse failures
  };
  let deno_ast::ProgramRef::Module(module) = parsed.program_ref() else {
    return (0, 0);
  };
  let mut g = G {
    o,
    spec: spec.to_string(),
    text: emitted,
    functions: 0,
    initializers: 0,
  };
  let ambient = mt.is_declaration();
  for item in &module.body {
    g.module_item(item, ambient);
  }
  (g.functions, g.initializers)
}

pub fn check_graph(graph: &ModuleGraph, o: &mut Outcome) -> (usize, usize) {
  let mut f = 0;
  let mut i = 0;
  for (spec, _, emitted, _, mt) in emitted_modules(graph) {
    let (a, b) = check_emitted(&spec, &emitted, mt, o);
    f += a;
    i += b;
  }
  (f, i)
}

pub fn check(case: &Case, _tier: Tier) -> Outcome {
  let mut o = Outcome::default();
  let p = c09::prepare(case, None);
  if p.graph.module_errors().next().is_some() {
    o.discarded = true;
    return o;
  }
  let (f, i) = check_graph(&p.graph, &mut o);
  // diagnostic side
  let mut seeded = false;
  for (k, pkg) in p.pkgs.iter().enumerate() {
    let base = if p.workspace {
      "file:///ws/".to_string()
    } else {
      fc::package_base(k)
    };
    let entry_urls: Vec<String> = pkg
      .rec
      .entrypoints
      .iter()
      .map(|e| format!("{}{}", base, e.trim_start_matches('/')))
      .collect();
    let has_diag = p.graph.modules().any(|m| {
      m.specifier().as_str().starts_with(&base)
        && m.js().map(|j| j.fast_check_diagnostics().is_some()).unwrap_or(false)
    });
    let has_output = p.graph.modules().any(|m| {
      m.specifier().as_str().starts_with(&base)
        && m.js().map(|j| j.fast_check_module().is_some()).unwrap_or(false)
    });
    if pkg.rec.expects_diagnostic {
      seeded = true;
      if !has_diag {
        o.violate(
          "C10/non-inferable-public-declaration-without-diagnostic",
          format!("package {k}: a public declaration is not inferable but no diagnostic was produced\n{}", fc::dump(&p.graph)),
        );
      }
      if has_output && !p.workspace {
        o.violate(
          "C10/output-despite-diagnostic",
          format!("package {k} has diagnostics and emitted modules"),
        );
      }
    } else if has_diag {
      // the generator believed everything public was explicit or inferable
      let d: Vec<String> = p
        .graph
        .modules()
        .filter_map(|m| m.js().and_then(|j| j.fast_check_diagnostics().cloned()))
        .flatten()
        .map(|d| d.to_string())
        .collect();
      o.label(format!("unexpected-diagnostic: {}", d.first().cloned().unwrap_or_default()));
    }
    let _ = entry_urls;
  }
  if seeded {
    o.label("seeded-non-inferable");
  }
  if f > 0 && i > 0 {
    o.label("function-like-and-initializer");
  }
  o.nontrivial = (f > 0 && i > 0) || seeded;
  o
}

pub fn extra(_tier: Tier, _seed: u64) -> ExtraReport {
  c09::corpus_layer("C10", |g, o| {
    check_graph(g, o);
  })
}
