//! C18 — a graph segment is self-contained and equals a direct build of its
//! roots. Oracles: (a) metamorphic — every dependency of every module in the
//! segment resolves as in the original; (b) differential — segment vs direct
//! build of the segment roots.

use crate::harness::build_simple;
use crate::obs;
use crate::runner::{idx, Outcome, PropSpec, Tier};
use crate::world::{build_case_strategy, BuildCase, GenParams};
use deno_graph::{ModuleGraph, ModuleSpecifier};
use proptest::prelude::*;
use serde::{Deserialize, Serialize};
use std::collections::BTreeSet;

#[derive(Clone, Debug, Serialize, Deserialize)]
pub struct Case {
  pub build: BuildCase,
  pub seg_roots: Vec<u16>,
  /// segment a graph of generated registry packages on which fast check has
  /// run instead of the world's graph (clause (a) only)
  #[serde(default)]
  pub fc: Option<crate::props::c09::Case>,
}

pub fn spec() -> PropSpec<Case> {
  PropSpec {
    id: "C18",
    strategy: |tier| {
      let p = GenParams {
        max_entries: tier.pick(8, 12),
        max_items: tier.pick(5, 7),
        ..Default::default()
      };
      (
        build_case_strategy(p),
        proptest::collection::vec(any::<u16>(), 1..=3),
        proptest::option::weighted(0.15, crate::props::c09::case_strategy(tier)),
      )
        .prop_map(|(mut build, seg_roots, fc)| {
          crate::world::break_redirect_cycles(&mut build.world);
          build.opts.is_dynamic = false;
          build.opts.skip_dynamic_deps = false;
          if build.opts.kind == 1 {
            // configured imports are type imports; callers pass none for
            // code-only graphs
            build.imports.clear();
          }
          Case { build, seg_roots, fc }
        })
        .boxed()
    },
    check,
    cases: |tier| tier.pick(100_000, 2_000_000),
    rule: "generated worlds built under all three graph kinds and options (and, 15% of the cases, graphs of generated registry packages on which fast check has run - clause (a) only); segment roots drawn among the modules of the graph (roots and non-roots) and the specifiers that redirect to them; non-trivial = the segment is a proper subset of the original, has >= 2 modules and contains a redirect or a module with a type resolution; distinct = distinct case JSON",
    assumptions: &[
      "same-attribute proviso by construction; no redirect cycles (C14 owns those); is_dynamic and skip_dynamic_deps at their defaults; no configured imports for code-only graphs",
      "segment roots are never externals that stand for an asset import (a root carries no attribute)",
      "(b) is checked whenever some segment root is not a root of the original (otherwise segment() documents a plain clone); the `packages` table is not compared; the direct build gets the same options and configured imports",
      "a divergence on a specifier whose acceptance depends on the request context (unknown / JSON media type) is reported once under its own signature",
    ],
    crash_is_violation: false,
    extra: None,
    level: "exploration",
  }
}

fn dep_view(
  g: &ModuleGraph,
  referrer: &ModuleSpecifier,
  text: &str,
  prefer_types: bool,
) -> String {
  match g.resolve_dependency(text, referrer, prefer_types) {
    None => "none".to_string(),
    Some(s) => match g.try_get(s) {
      Ok(Some(m)) => format!("{s} module:{}", obs::module_kind(m)),
      Ok(None) => format!("{s} absent"),
      Err(e) => format!("{s} error:{e}"),
    },
  }
}

pub fn check(case: &Case, _tier: Tier) -> Outcome {
  let mut o = Outcome::default();
  let b = &case.build;
  let orig = match &case.fc {
    Some(fc) => {
      o.label("graph-with-fast-check-modules");
      crate::props::c09::prepare(fc, None).graph
    }
    None => build_simple(&b.world, &b.roots, &b.imports, &b.opts).0,
  };
  // candidates: every module except externals that stand for an asset import
  // (`type: "text"|"bytes"|"css"`): a root is requested without attribute;
  // and every specifier that redirects to such a module
  let mut modules: Vec<ModuleSpecifier> = orig
    .modules()
    .filter(|m| !m.external().map(|e| e.was_asset_load).unwrap_or(false))
    .map(|m| m.specifier().clone())
    .collect();
  if case.fc.is_none() {
    let sources: Vec<ModuleSpecifier> = orig
      .redirects
      .keys()
      .filter(|s| !matches!(s.scheme(), "jsr" | "npm"))
      .filter(|s| modules.contains(orig.resolve(s)))
      .cloned()
      .collect();
    modules.extend(sources);
  }
  if modules.is_empty() {
    return o;
  }
  let mut seg_roots: Vec<ModuleSpecifier> = Vec::new();
  for r in &case.seg_roots {
    let m = modules[idx(*r, modules.len())].clone();
    if !seg_roots.contains(&m) {
      seg_roots.push(m);
    }
  }
  let seg = orig.segment(&seg_roots);
  let kind_tag = format!("{:?}", orig.graph_kind());

  // (a) self-containment
  for m in seg.modules() {
    for (text, dep) in m.dependencies() {
      for prefer_types in [false, true] {
        let a = dep_view(&orig, m.specifier(), text, prefer_types);
        let s = dep_view(&seg, m.specifier(), text, prefer_types);
        if a != s {
          let followed = !dep.is_dynamic;
          o.violate(
            format!(
              "C18/dependency-resolves-differently/{kind_tag}/prefer_types={prefer_types}/{}",
              if s == "none" { "lost" } else { "changed" }
            ),
            format!(
              "{} imports {text:?} (static={followed}): original -> {a}; segment -> {s}",
              m.specifier()
            ),
          );
        }
      }
    }
    // the module itself must be the same entry
    let ser_o = orig.try_get(m.specifier()).ok().flatten().map(|x| serde_json::to_value(x).unwrap());
    let ser_s = Some(serde_json::to_value(m).unwrap());
    if ser_o != ser_s {
      o.violate("C18/module-differs-from-original", format!("{}", m.specifier()));
    }
  }
  // the package tables: what the modules of the segment ask of the registry
  // resolves as in the original, and their packages are known with the same
  // used exports
  {
    use deno_graph::source::JsrUrlProvider;
    let provider = deno_graph::source::DefaultJsrUrlProvider;
    let mut reqs = 0;
    for m in seg.modules() {
      for dep in m.dependencies().values() {
        for r in [&dep.maybe_code, &dep.maybe_type] {
          let Some(t) = r.maybe_specifier() else { continue };
          if t.scheme() != "jsr" {
            continue;
          }
          let Ok(req_ref) = deno_semver::jsr::JsrPackageReqReference::from_specifier(t) else { continue };
          reqs += 1;
          let a = orig.packages.mappings().get(req_ref.req());
          let b = seg.packages.mappings().get(req_ref.req());
          if a != b {
            o.violate(
              "C18/package-requirement-resolves-differently",
              format!("{} imports {t}: original -> {a:?}; segment -> {b:?}", m.specifier()),
            );
          }
        }
      }
      if let Some(nv) = provider.package_url_to_nv(m.specifier()) {
        let a = orig.packages.package_exports(&nv);
        let b = seg.packages.package_exports(&nv);
        if a != b {
          o.violate(
            "C18/package-exports-differ",
            format!("{nv} (of {}): original -> {a:?}; segment -> {b:?}", m.specifier()),
          );
        }
      }
    }
    if reqs > 0 {
      o.label("segment-with-registry-requirements");
    }
  }
  // validation verdicts from the segment roots
  let ov = orig
    .walk(
      seg_roots.iter(),
      deno_graph::WalkOptions {
        check_js: deno_graph::CheckJsOption::True,
        follow_dynamic: false,
        kind: deno_graph::GraphKind::CodeOnly,
        prefer_fast_check_graph: false,
      },
    )
    .validate()
    .map_err(|e| e.to_string());
  let sv = seg
    .walk(
      seg_roots.iter(),
      deno_graph::WalkOptions {
        check_js: deno_graph::CheckJsOption::True,
        follow_dynamic: false,
        kind: deno_graph::GraphKind::CodeOnly,
        prefer_fast_check_graph: false,
      },
    )
    .validate()
    .map_err(|e| e.to_string());
  if ov.is_ok() != sv.is_ok() {
    o.violate(
      format!("C18/valid-verdict/{kind_tag}/{}-{}", ov.is_ok(), sv.is_ok()),
      format!("code validation from the segment roots: original={ov:?} segment={sv:?}"),
    );
  }
  for follow_dynamic in [false, true] {
    for kind in [deno_graph::GraphKind::CodeOnly, orig.graph_kind()] {
      let a = obs::walk_errors(&orig, &seg_roots, kind, follow_dynamic);
      let s = obs::walk_errors(&seg, &seg_roots, kind, follow_dynamic);
      if a != s {
        o.violate(
          format!("C18/walk-errors-differ/{kind_tag}/walk={kind:?}/dyn={follow_dynamic}"),
          format!("original={a:?}\nsegment={s:?}"),
        );
      }
    }
  }

  // (b) equality with a direct build
  // segment() documents a clone shortcut when *all* requested roots are roots
  // of the original; in every other case it is the closure of the given roots
  let shortcut = seg_roots.iter().all(|r| orig.roots.contains(r));
  if seg_roots.iter().any(|r| orig.redirects.contains_key(r)) {
    o.label("segment-root-is-a-redirect-source");
  }
  if !shortcut && case.fc.is_none() {
    let sr: Vec<String> = seg.roots.iter().map(|r| r.to_string()).collect();
    let er: Vec<String> = seg_roots.iter().map(|r| r.to_string()).collect();
    if sr != er {
      o.violate("C18/segment-roots", format!("segment roots {sr:?}, requested {er:?}"));
    }
    let roots: Vec<String> = seg_roots.iter().map(|r| r.to_string()).collect();
    let (direct, _) = build_simple(&b.world, &roots, &b.imports, &b.opts);
    let diffs =
      obs::diff_graphs(&b.world, &seg, &direct, "segment", "direct", None, true);
    // segment() follows the dependency maps only: the asset entry a build
    // loads for a module's sourceMappingURL is not copied (known finding);
    // reported once per case under its own signature
    let sm = obs::source_map_targets(&direct);
    let (sm_diffs, other): (Vec<_>, Vec<_>) = diffs
      .into_iter()
      .partition(|(sig, key, _)| sm.contains(key) && sig.contains("only-in-direct"));
    if let Some((_, _, msg)) = sm_diffs.first() {
      o.violate("C18/vs-direct-build/source-map-asset-missing-from-segment", msg.clone());
    }
    for (sig, _, msg) in other {
      if sig.starts_with("context-sensitive-acceptance/") {
        o.violate(format!("C18/vs-direct-build/{sig}"), msg);
      } else {
        o.violate(format!("C18/vs-direct-build/{kind_tag}/{sig}"), msg);
      }
    }
    o.label("compared-with-direct-build");
  }

  let seg_specs: BTreeSet<String> =
    seg.specifiers().map(|(s, _)| s.to_string()).collect();
  let orig_specs: BTreeSet<String> =
    orig.specifiers().map(|(s, _)| s.to_string()).collect();
  let proper = seg_specs.len() < orig_specs.len();
  let has_type = seg.modules().any(|m| {
    m.maybe_types_dependency().is_some()
      || m.dependencies().values().any(|d| !d.maybe_type.is_none())
  });
  if proper {
    o.label("proper-subset");
  }
  if has_type {
    o.label("segment-has-type-resolution");
  }
  if !seg.redirects.is_empty() {
    o.label("segment-has-redirect");
  }
  o.label(format!("kind-{kind_tag}"));
  o.nontrivial = proper
    && seg.modules().count() >= 2
    && (has_type || !seg.redirects.is_empty());
  o
}
