//! C03 — builds terminate with every reachable specifier settled under any
//! faults. Oracles: invariants (no panic, no pending entry, serialisable),
//! fault -> error entry with referrer, and the metamorphic isolation relation
//! against the fault-free build.

use crate::harness::{
  build_into, parse_imports, parse_roots, BuildEnv, Fault, PlanNpmResolver,
  Schedule, WorldLoader,
};
use crate::obs;
use crate::runner::{idx, ExtraReport, Outcome, PropSpec, Tier, Violation};
use crate::world::{self, build_case_strategy, BuildCase, GenParams, POOL};
use deno_graph::{ModuleErrorKind, ModuleGraph, ModuleSpecifier};
use proptest::prelude::*;
use proptest::strategy::ValueTree;
use serde::{Deserialize, Serialize};
use std::collections::{BTreeMap, BTreeSet};

#[derive(Clone, Debug, Serialize, Deserialize)]
pub struct RawFault {
  /// index into the load calls of the fault-free build
  pub call: u16,
  /// 0 missing, 1 error, 2 checksum error, 3 redirect to pool entry,
  /// 4 redirect to itself, 5 external, 6 other final specifier,
  /// 7 undecodable bytes, 8 unparsable text, 9 redirect to an already
  /// loaded specifier, 10 module under the final specifier of an already
  /// loaded one
  pub kind: u8,
  pub arg: u16,
}

#[derive(Clone, Debug, Serialize, Deserialize)]
pub struct Case {
  pub build: BuildCase,
  pub faults: Vec<RawFault>,
  /// 0 = npm resolution works, 1 = `pkg` fails, 2 = dependency graph fails
  pub npm_mode: u8,
  /// a registry and an entry module importing from it
  #[serde(default)]
  pub jsr: Option<crate::props::c07::JsrPart>,
  /// the registry entry module is added by a second build() on the graph
  #[serde(default)]
  pub jsr_second_build: bool,
  /// one more fault: the content load of a registry package file (picked
  /// among those the fault-free build issues) is answered with a redirect
  #[serde(default)]
  pub jsr_file_redirect: Option<(u16, u16)>,
}

fn params(tier: Tier) -> GenParams {
  GenParams {
    max_entries: tier.pick(6, 9),
    max_items: tier.pick(4, 6),
    ..Default::default()
  }
}

pub fn spec() -> PropSpec<Case> {
  PropSpec {
    id: "C03",
    strategy: |tier| {
      (
        build_case_strategy(params(tier)),
        proptest::collection::vec(
          (any::<u16>(), 0..11u8, any::<u16>())
            .prop_map(|(call, kind, arg)| RawFault { call, kind, arg }),
          0..=4,
        ),
        prop_oneof![3 => Just(0u8), 1 => Just(1u8), 1 => Just(2u8)],
        proptest::option::weighted(0.35, crate::props::c07::jsr_part_strategy()),
        proptest::bool::weighted(0.4),
        proptest::option::weighted(0.3, (any::<u16>(), any::<u16>())),
      )
        .prop_map(|(build, faults, npm_mode, jsr, jsr_second_build, jsr_file_redirect)| Case {
          build,
          faults,
          npm_mode,
          jsr_file_redirect: if jsr.is_some() { jsr_file_redirect } else { None },
          jsr,
          jsr_second_build,
        })
        .boxed()
    },
    check,
    cases: |tier| tier.pick(120_000, 3_000_000),
    rule: "sampled layer: generated worlds x plans of 0-4 faults, each fault replacing the answer of one load call of the fault-free build (missing, loader error, checksum error, redirect to another / the same / an already loaded specifier, external, module under another final specifier, undecodable bytes, unparsable text), plus npm resolver failures; exhaustive layer: for base worlds whose fault-free build issues <= 7 load calls, every single fault (call x kind); non-trivial = at least one injected fault fired and the fault-free graph has a module that does not depend on it; distinct = distinct case JSON",
    assumptions: &[
      "the NpmResolver returns as many results as requirements (documented MUST)",
      "fault -> error entry is asserted for missing / loader-error faults on specifiers the faulted build loads exactly once",
      "isolation compares modules reachable in the fault-free graph along paths avoiding every faulted specifier, every specifier a fault redirects to and what the world serves those as (redirect / alias targets); when an npm resolution failure is injected as well, every npm: entry counts as depending on a failure; modules whose acceptance depends on the request context (unknown / JSON media type, asset imports) are excluded from the comparison",
      "a debug assertion of the code under test firing counts as a panic",
    ],
    crash_is_violation: true,
    extra: Some(extra),
    level: "fault_enumeration",
  }
}

fn npm_of(mode: u8) -> PlanNpmResolver {
  let mut n = PlanNpmResolver::default();
  match mode {
    1 => {
      n.failing.insert("pkg".to_string());
    }
    2 => n.dep_graph_fails = true,
    _ => {}
  }
  n
}

fn run(
  b: &BuildCase,
  plan: BTreeMap<(String, u32), Fault>,
  npm_mode: u8,
) -> (ModuleGraph, WorldLoader) {
  run_jsr(b, None, false, plan, npm_mode)
}

fn run_jsr(
  b: &BuildCase,
  jsr: Option<&crate::props::c07::JsrPart>,
  second_build: bool,
  plan: BTreeMap<(String, u32), Fault>,
  npm_mode: u8,
) -> (ModuleGraph, WorldLoader) {
  let mut served = crate::harness::materialize(&b.world);
  let mut cache = None;
  if let Some(j) = jsr {
    cache = Some(j.install(&mut served));
  }
  let mut loader = WorldLoader::new(served);
  loader.cache = cache;
  loader.faults = plan;
  let npm = npm_of(npm_mode);
  let mut graph = ModuleGraph::new(b.opts.graph_kind());
  let mut steps: Vec<Vec<String>> = vec![b.roots.clone()];
  if jsr.is_some() {
    if second_build {
      steps.push(vec![crate::props::c07::JSR_MAIN.to_string()]);
    } else {
      steps[0].push(crate::props::c07::JSR_MAIN.to_string());
    }
  }
  for (i, roots) in steps.iter().enumerate() {
    build_into(
      &mut graph,
      parse_roots(roots),
      if i == 0 { parse_imports(&b.imports) } else { vec![] },
      BuildEnv {
        loader: &loader,
        opts: &b.opts,
        locker: None,
        npm: Some(&npm),
        jsr_version_resolver: None,
        prefer_cached: jsr.map(|j| j.prefer_cached).unwrap_or(false),
      },
      &Schedule::default(),
      false,
    )
    .expect("ungated build");
  }
  (graph, loader)
}

/// A module served under another final specifier lives elsewhere: its
/// relative imports become requests for other specifiers (with the attributes
/// written there), which therefore depend on the fault. What the re-homed
/// content is parsed as depends on the new name as well, so every token of
/// the served bytes that looks like a relative specifier counts.
fn rehomed_requests(l0: &WorldLoader, spec: &str, fault: &Fault, touched: &mut BTreeSet<String>) {
  let Fault::FinalSpec(t) = fault else { return };
  let (Ok(own), Ok(base)) = (ModuleSpecifier::parse(spec), ModuleSpecifier::parse(t)) else {
    return;
  };
  let served = l0.served.borrow();
  let Some(crate::harness::Served::Module { bytes, .. }) = served.get(&own) else {
    return;
  };
  let is_spec_byte = |b: u8| b.is_ascii_alphanumeric() || b"._~/-%@:+?#&".contains(&b);
  for tok in bytes.split(|b| !is_spec_byte(*b)) {
    let Ok(raw) = std::str::from_utf8(tok) else { continue };
    if raw.starts_with("./") || raw.starts_with("../") || (raw.starts_with('/') && raw.len() > 1 && !raw.starts_with("//")) {
      if let Ok(u) = base.join(raw) {
        touched.insert(u.to_string());
      }
    }
  }
}

pub fn make_fault(kind: u8, arg: u16, loaded: &[String], own: &str) -> (Fault, Option<String>) {
  match kind {
    0 => (Fault::Missing, None),
    1 => (Fault::Error, None),
    2 => (Fault::ChecksumError, None),
    3 => {
      let t = POOL[idx(arg, POOL.len())].to_string();
      (Fault::RedirectTo(t.clone()), Some(t))
    }
    4 => (Fault::RedirectSelf, None),
    5 => (Fault::External, None),
    6 => {
      let t = POOL[idx(arg, POOL.len())].to_string();
      (Fault::FinalSpec(t.clone()), Some(t))
    }
    10 => {
      // a module under the final specifier of something the build loads
      // anyway (a package file, for one)
      if loaded.is_empty() {
        (Fault::Missing, None)
      } else {
        let t = loaded[idx(arg, loaded.len())].clone();
        if t == own {
          (Fault::RedirectSelf, None)
        } else {
          (Fault::FinalSpec(t.clone()), Some(t))
        }
      }
    }
    7 => (Fault::Bytes(vec![0xff, 0xfe, 0x00, 0xd8, 0x41]), None),
    8 => (Fault::Bytes(b"export const = ;".to_vec()), None),
    _ => {
      if loaded.is_empty() {
        (Fault::Missing, None)
      } else {
        let t = loaded[idx(arg, loaded.len())].clone();
        if t == own {
          (Fault::RedirectSelf, None)
        } else {
          (Fault::RedirectTo(t.clone()), Some(t))
        }
      }
    }
  }
}

pub fn check(case: &Case, _tier: Tier) -> Outcome {
  let mut o = Outcome::default();
  let b = &case.build;
  let jsr = case.jsr.as_ref();
  let (g0, l0) = run_jsr(b, jsr, case.jsr_second_build, BTreeMap::new(), case.npm_mode);
  invariants(&g0, &mut o, "fault-free");
  if b.opts.npm_resolver && case.npm_mode != 0 {
    npm_failures(&g0, case.npm_mode, &mut o);
  }
  let log0 = l0.log.borrow().clone();
  let loaded: Vec<String> = {
    let mut v: Vec<String> = Vec::new();
    for c in &log0 {
      if !v.contains(&c.spec) {
        v.push(c.spec.clone());
      }
    }
    v
  };
  let mut plan = BTreeMap::new();
  let mut touched: BTreeSet<String> = BTreeSet::new();
  let mut simple: Vec<(String, u8)> = Vec::new();
  if !log0.is_empty() {
    for f in &case.faults {
      let call = &log0[idx(f.call, log0.len())];
      let attempt = log0[..call.seq].iter().filter(|c| c.spec == call.spec).count() as u32;
      let (fault, target) = make_fault(f.kind, f.arg, &loaded, &call.spec);
      touched.insert(call.spec.clone());
      rehomed_requests(&l0, &call.spec, &fault, &mut touched);
      if let Some(t) = target {
        touched.insert(t);
      }
      close_over_world(&b.world, &mut touched);
      simple.retain(|(s, _)| s != &call.spec || attempt != 0);
      let registry_resource = call.spec.starts_with(crate::registry::REGISTRY)
        || call.spec.starts_with("jsr:");
      if attempt == 0 && f.kind <= 1 && !registry_resource && call.cache != "only" {
        simple.push((call.spec.clone(), f.kind));
      }
      plan.insert((call.spec.clone(), attempt), fault);
    }
  }
  if let Some((which, to)) = case.jsr_file_redirect {
    let files: Vec<&crate::harness::LoadCall> = log0
      .iter()
      .filter(|c| {
        !c.spec.ends_with("meta.json")
          && c.cache != "only"
          && ModuleSpecifier::parse(&c.spec).map(|u| crate::props::c07::nv_of_url(&u).is_some()).unwrap_or(false)
      })
      .collect();
    if !files.is_empty() && !loaded.is_empty() {
      let call = files[idx(which, files.len())];
      let target = loaded[idx(to, loaded.len())].clone();
      let attempt = log0[..call.seq].iter().filter(|c| c.spec == call.spec && c.cache != "only").count() as u32;
      if target != call.spec && !plan.contains_key(&(call.spec.clone(), attempt)) {
        touched.insert(call.spec.clone());
        touched.insert(target.clone());
        close_over_world(&b.world, &mut touched);
        plan.insert((call.spec.clone(), attempt), Fault::RedirectTo(target));
      }
    }
  }
  // an injected npm resolution failure is a failure too: every npm: entry
  // depends on it (whether it shows as an error entry or in the graph-level
  // dependency result depends on who imports the specifier, statically or
  // dynamically, which another fault may change)
  if case.npm_mode != 0 {
    for (s, _) in crate::obs::entries(&g0, false) {
      if s.starts_with("npm:") {
        touched.insert(s);
      }
    }
  }
  let nfaults = plan.len();
  let trace = std::env::var("VP_C03_TRACE").is_ok();
  if trace {
    eprintln!("plan: {plan:?}\nlog0: {:?}", log0.iter().map(|c| format!("{}[{}]", c.spec, c.cache)).collect::<Vec<_>>());
  }
  let (gf, lf) = run_jsr(b, jsr, case.jsr_second_build, plan, case.npm_mode);
  if trace {
    eprintln!("logf: {:?}", lf.log.borrow().iter().map(|c| format!("{}[{}]", c.spec, c.cache)).collect::<Vec<_>>());
    eprintln!("g0: {}", serde_json::to_string_pretty(&g0).unwrap_or_default());
    eprintln!("gf: {}", serde_json::to_string_pretty(&gf).unwrap_or_default());
  }
  let fired = check_faulted(b, &g0, &gf, &lf, &touched, &simple, &mut o);
  if fired > 0 {
    o.label("fault-fired");
  }
  if case.npm_mode != 0 {
    o.label("npm-failure-mode");
  }
  if jsr.is_some() {
    o.label("jsr-registry");
    if case.jsr_second_build {
      o.label("jsr-in-second-build");
    }
  }
  o.label(format!("faults-{nfaults}"));
  o
}

/// An injected npm resolution failure becomes an error entry with a
/// referrer: the requirement of a failing package wherever it is imported; a
/// dependency-graph failure for specifiers that only dynamic imports reach
/// (for static ones it is the graph-level `npm_dep_graph_result`).
fn npm_failures(g: &ModuleGraph, npm_mode: u8, o: &mut Outcome) {
  let mut edges: BTreeMap<ModuleSpecifier, (usize, usize)> = BTreeMap::new();
  for m in g.modules() {
    for d in m.dependencies().values() {
      for r in [&d.maybe_code, &d.maybe_type] {
        if let Some(t) = r.maybe_specifier() {
          if t.scheme() == "npm" {
            let e = edges.entry(t.clone()).or_default();
            if d.is_dynamic {
              e.1 += 1;
            } else {
              e.0 += 1;
            }
          }
        }
      }
    }
  }
  // a types dependency or a source-map URL is a static request as well
  for m in g.modules() {
    let mut extra: Vec<&ModuleSpecifier> = Vec::new();
    if let Some(td) = m.maybe_types_dependency() {
      extra.extend(td.dependency.maybe_specifier());
    }
    if let Some(js) = m.js() {
      if let Some(sm) = &js.maybe_source_map_dependency {
        extra.extend(sm.dependency.maybe_specifier());
      }
    }
    for t in extra {
      if t.scheme() == "npm" {
        edges.entry(t.clone()).or_default().0 += 1;
      }
    }
  }
  let configured: BTreeSet<&ModuleSpecifier> = g
    .imports
    .values()
    .flat_map(|gi| gi.dependencies.values())
    .filter_map(|d| d.maybe_type.maybe_specifier())
    .chain(g.roots.iter())
    .collect();
  for (s, (stat, dynamic)) in edges {
    if configured.contains(&s) {
      continue;
    }
    let name_fails = s.as_str().starts_with("npm:pkg@") || s.as_str() == "npm:pkg";
    let expect_error = match npm_mode {
      1 => name_fails,
      2 => stat == 0 && dynamic > 0,
      _ => false,
    };
    if !expect_error {
      continue;
    }
    match g.try_get(&s) {
      Err(e) => {
        o.label(if npm_mode == 1 { "npm-requirement-failure-reached" } else { "npm-dependency-graph-failure-behind-dynamic-import" });
        if e.maybe_referrer().is_none() {
          o.violate("C03/npm-failure-entry-without-referrer", format!("{s}: {e}"));
        }
      }
      // not followed by this build (dynamic imports skipped, a type edge in
      // a code-only graph)
      Ok(None) => {}
      Ok(Some(m)) => o.violate(
        format!("C03/npm-failure-without-error-entry/mode-{npm_mode}"),
        format!("{s}: {stat} static and {dynamic} dynamic imports, entry {}", m.specifier()),
      ),
    }
  }
}

fn invariants(g: &ModuleGraph, o: &mut Outcome, which: &str) {
  match serde_json::to_value(g) {
    Ok(v) => {
      if obs::has_internal_error(&v) {
        o.violate(
          "C03/pending-entry-after-build",
          format!("{which} build: serialised graph reports an internal error: {}", find_internal(&v)),
        );
      }
    }
    Err(e) => o.violate("C03/graph-does-not-serialise", format!("{which}: {e}")),
  }
}

fn find_internal(v: &serde_json::Value) -> String {
  if let Some(arr) = v.get("modules").and_then(|m| m.as_array()) {
    for m in arr {
      if obs::has_internal_error(m) {
        return m.to_string();
      }
    }
  }
  String::new()
}

/// Shared by the sampled and the exhaustive layer. Returns the number of
/// faults that fired.
/// A fault that redirects to `t` also reaches whatever the world serves `t`
/// as: the targets of its redirects and loader-followed aliases (the faulted
/// request then lands there, possibly under another attribute).
fn close_over_world(world: &crate::world::World, touched: &mut BTreeSet<String>) {
  use crate::world::Entry;
  let mut work: Vec<String> = touched.iter().cloned().collect();
  while let Some(s) = work.pop() {
    if let Some(Entry::Redirect { to } | Entry::Alias { to }) = world.entries.get(&s) {
      if touched.insert(to.clone()) {
        work.push(to.clone());
      }
    }
  }
}

fn check_faulted(
  b: &BuildCase,
  g0: &ModuleGraph,
  gf: &ModuleGraph,
  lf: &WorldLoader,
  touched: &BTreeSet<String>,
  simple: &[(String, u8)],
  o: &mut Outcome,
) -> usize {
  invariants(gf, o, "faulted");
  let fired = lf.faults_fired.borrow().clone();
  let logf = lf.log.borrow().clone();
  // --- fault -> error entry with referrer
  let entries = obs::entries(gf, false);
  // a specifier requested under different import attributes gets whatever
  // the first request makes of it: which request comes first depends on the
  // faults
  let mut requested_as: BTreeMap<ModuleSpecifier, BTreeSet<Option<String>>> = BTreeMap::new();
  // (in either build: a fault that re-homes a module makes its relative
  // imports requests for other specifiers)
  for g in [g0, gf] {
    let plain = g.roots.iter().chain(
      g.imports
        .values()
        .flat_map(|gi| gi.dependencies.values())
        .filter_map(|d| d.maybe_type.maybe_specifier()),
    );
    for t in plain {
      for k in [t, g.resolve(t)] {
        requested_as.entry(k.clone()).or_default().insert(None);
      }
    }
    for m in g.modules() {
      for d in m.dependencies().values() {
        for r in [&d.maybe_code, &d.maybe_type] {
          if let Some(t) = r.maybe_specifier() {
            for k in [t, g.resolve(t)] {
              requested_as.entry(k.clone()).or_default().insert(d.maybe_attribute_type.clone());
            }
          }
        }
      }
    }
  }
  let mixed: BTreeSet<ModuleSpecifier> = requested_as
    .into_iter()
    .filter(|(_, v)| v.len() > 1)
    .map(|(k, _)| k)
    .collect();
  // after a cache busting restart the graph is the result of the second pass,
  // in which the (attempt-keyed) faults of the first pass no longer apply
  let restarted = b
    .roots
    .iter()
    .map(|r| r.as_str())
    .chain(std::iter::once(crate::props::c07::JSR_MAIN))
    .any(|r| logf.iter().filter(|c| c.spec == r).count() >= 2)
    || logf
      .iter()
      .any(|c| c.cache == "reload" && c.spec.ends_with("/meta.json"));
  // a file of a registry package answered by a redirect (or under another
  // final specifier): redirects inside a package are not followed, the file
  // itself gets the error entry
  if !restarted {
    for ((spec, attempt), f) in lf.faults.iter() {
      if *attempt != 0 || spec.ends_with("meta.json") {
        continue;
      }
      // a file inside the directory of a package version
      if !ModuleSpecifier::parse(spec).map(|u| crate::props::c07::nv_of_url(&u).is_some()).unwrap_or(false) {
        continue;
      }
      let target = match f {
        Fault::RedirectTo(t) | Fault::FinalSpec(t) => t,
        _ => continue,
      };
      if target == spec || !fired.iter().any(|(s, a)| s == spec && *a == 0) {
        continue;
      }
      // the only content-consuming request of that file
      if logf.iter().filter(|c| &c.spec == spec && c.cache != "only").count() != 1 {
        continue;
      }
      // (a request that only caches the file as an asset consumes nothing)
      if logf.iter().any(|c| &c.spec == spec && c.ensure_cached) {
        continue;
      }
      let Ok(url) = ModuleSpecifier::parse(spec) else { continue };
      o.label(if logf.iter().any(|c| &c.spec == spec && c.cache == "only") {
        "redirected-package-file/deferred-content-load"
      } else {
        "redirected-package-file/direct-load"
      });
      // looked up by the file's own entry, not by what an error names
      if gf.try_get(&url).is_ok() {
        o.violate(
          "C03/redirected-package-file-without-error-entry",
          format!("{spec}: its content load was answered with a redirect to {target}; the graph has {:?} for it", entries.get(spec)),
        );
      }
    }
  }
  for (spec, kind) in simple {
    if restarted {
      break;
    }
    if !fired.iter().any(|(s, a)| s == spec && *a == 0) {
      continue;
    }
    if logf.iter().filter(|c| &c.spec == spec).count() != 1 {
      continue;
    }
    // another request may deliver the same final specifier (a loader-followed
    // redirect, or a fault that answers under this specifier)
    if touched.contains(spec) && !simple.iter().any(|(s, _)| s == spec) {
      continue;
    }
    let delivered_otherwise = b.world.entries.iter().any(|(k, e)| {
      k != spec && matches!(e, world::Entry::Alias { to } if to == spec)
    }) || lf.faults.iter().any(|((s, _), f)| {
      s != spec && matches!(f, Fault::FinalSpec(t) if t == spec)
    });
    if delivered_otherwise {
      continue;
    }
    let Ok(url) = ModuleSpecifier::parse(spec) else { continue };
    if mixed.contains(&url) {
      continue; // a request under another attribute may settle it first
    }
    let err = gf.module_errors().find(|e| e.specifier() == &url);
    match err {
      None => o.violate(
        format!("C03/fault-without-error-entry/{}", if *kind == 0 { "missing" } else { "error" }),
        format!("{spec}: injected fault fired but the graph has {:?}", entries.get(spec)),
      ),
      Some(e) => {
        let ok_kind = match (kind, e.as_kind()) {
          (0, ModuleErrorKind::Missing { .. }) => true,
          (1, ModuleErrorKind::Load { .. }) => true,
          _ => false,
        };
        if !ok_kind {
          o.violate(
            "C03/fault-error-entry-of-wrong-kind",
            format!("{spec}: injected kind {kind}, entry {e}"),
          );
        }
        // referrer: none only for roots (possibly behind redirects)
        let is_rootish = gf.roots.iter().any(|r| {
          r == &url || crate::refwalk::follow_redirects(gf, r) == &url
        }) || lf.faults.values().any(|f| {
          // injected redirects are not all recorded (one redirect per
          // specifier, the latest answer), so the chain from a root cannot
          // always be reconstructed
          matches!(f, Fault::FinalSpec(_) | Fault::RedirectTo(_))
        });
        match e.maybe_referrer() {
          None => {
            if !is_rootish {
              o.violate(
                "C03/error-entry-without-referrer",
                format!("{spec} is not a root but its error entry has no referrer"),
              );
            }
          }
          Some(range) => {
            // the referrer is a module (or configured import) of the graph
            // with a dependency that leads to the faulted specifier
            let leads = |t: &ModuleSpecifier| {
              t == &url || crate::refwalk::follow_redirects(gf, t) == &url
            };
            let mut found = false;
            if let Some(m) = gf.modules().find(|m| m.specifier() == &range.specifier) {
              for d in m.dependencies().values() {
                for r in [&d.maybe_code, &d.maybe_type] {
                  if r.maybe_specifier().map(leads).unwrap_or(false) {
                    found = true;
                  }
                }
              }
              if let Some(td) = m.maybe_types_dependency() {
                if td.dependency.maybe_specifier().map(leads).unwrap_or(false) {
                  found = true;
                }
              }
              if let Some(js) = m.js() {
                if let Some(sm) = &js.maybe_source_map_dependency {
                  if sm.dependency.maybe_specifier().map(leads).unwrap_or(false) {
                    found = true;
                  }
                }
              }
            }
            if let Some(gi) = gf.imports.get(&range.specifier) {
              for d in gi.dependencies.values() {
                if d.maybe_type.maybe_specifier().map(leads).unwrap_or(false) {
                  found = true;
                }
              }
            }
            let referrer_present = gf
              .modules()
              .any(|m| m.specifier() == &range.specifier)
              || gf.imports.contains_key(&range.specifier);
            // a loader answering under a final specifier it serves otherwise
            // makes the identity of the referring module ambiguous
            // (by a fault, or because the world serves it both directly and
            // as the final specifier of a loader-followed redirect: the later
            // answer replaces the module the error's referrer was)
            let deliveries = logf
              .iter()
              .filter(|c| {
                let mut key = c.spec.clone();
                for _ in 0..6 {
                  match b.world.entries.get(&key) {
                    Some(world::Entry::Alias { to }) => key = to.clone(),
                    _ => break,
                  }
                }
                key == range.specifier.as_str()
              })
              .count();
            let ambiguous = deliveries >= 2
              || lf
                .faults
                .values()
                .any(|f| matches!(f, Fault::FinalSpec(_)));
            if !found && referrer_present && !ambiguous {
              o.violate(
                "C03/error-referrer-is-not-an-importer",
                format!("{spec}: referrer {range} has no dependency leading to it"),
              );
            }
          }
        }
      }
    }
  }
  // --- isolation
  let f_exact: BTreeSet<ModuleSpecifier> = touched
    .iter()
    .filter_map(|s| ModuleSpecifier::parse(s).ok())
    .collect();
  // a fault on any resource of a registry package (metadata, manifest, file)
  // touches everything resolved through that package
  let faulted_packages: BTreeSet<String> = touched
    .iter()
    .filter_map(|s| {
      let rest = s.strip_prefix(crate::registry::REGISTRY)?;
      let mut parts = rest.splitn(3, '/');
      Some(format!("{}/{}", parts.next()?, parts.next()?))
    })
    .collect();
  // requirement resolution prefers versions already in the graph, so what a
  // module of a faulted package (or a faulted module) asks of another package
  // decides how every other request for that package resolves
  let package_of = |s: &str| -> Option<String> {
    if let Some(rest) = s.strip_prefix(crate::registry::REGISTRY) {
      let mut parts = rest.splitn(3, '/');
      return Some(format!("{}/{}", parts.next()?, parts.next()?));
    }
    let rest = s.strip_prefix("jsr:")?;
    let rest = rest.strip_prefix('/').unwrap_or(rest);
    let mut parts = rest.splitn(3, '/');
    let scope = parts.next()?;
    let name = parts.next()?;
    let name = name.split('@').next()?;
    Some(format!("{scope}/{name}"))
  };
  let mut faulted_packages = faulted_packages;
  loop {
    let mut grew = false;
    for m in g0.modules() {
      let sp = m.specifier().as_str();
      let is_faulted = f_exact.contains(m.specifier())
        || package_of(sp).map(|p| faulted_packages.contains(&p)).unwrap_or(false);
      if !is_faulted {
        continue;
      }
      for (raw, d) in m.dependencies() {
        let mut names: Vec<String> = vec![raw.clone()];
        for r in [&d.maybe_code, &d.maybe_type] {
          if let Some(t) = r.maybe_specifier() {
            names.push(t.to_string());
          }
        }
        for n in names {
          if let Some(p) = package_of(&n) {
            grew |= faulted_packages.insert(p);
          }
        }
      }
    }
    if !grew {
      break;
    }
  }
  struct Faulted {
    exact: BTreeSet<ModuleSpecifier>,
    packages: BTreeSet<String>,
  }
  impl Faulted {
    fn contains(&self, s: &ModuleSpecifier) -> bool {
      self.exact.contains(s)
        || self.packages.iter().any(|p| {
          s.as_str().starts_with(&format!("{}{p}/", crate::registry::REGISTRY))
            || s.as_str().starts_with(&format!("jsr:{p}@"))
            || s.as_str() == format!("jsr:{p}")
        })
    }
  }
  let f = Faulted {
    exact: f_exact,
    packages: faulted_packages,
  };
  let mut reach: BTreeSet<ModuleSpecifier> = BTreeSet::new();
  let mut work: Vec<ModuleSpecifier> = Vec::new();
  let mut seen: BTreeSet<ModuleSpecifier> = BTreeSet::new();
  let push = |s: &ModuleSpecifier, work: &mut Vec<ModuleSpecifier>, seen: &mut BTreeSet<ModuleSpecifier>| {
    if !f.contains(s) && seen.insert(s.clone()) {
      work.push(s.clone());
    }
  };
  for r in &g0.roots {
    push(r, &mut work, &mut seen);
  }
  for gi in g0.imports.values() {
    for d in gi.dependencies.values() {
      if let Some(s) = d.maybe_type.maybe_specifier() {
        push(s, &mut work, &mut seen);
      }
    }
  }
  let mods0: BTreeMap<&ModuleSpecifier, &deno_graph::Module> =
    g0.modules().map(|m| (m.specifier(), m)).collect();
  while let Some(s) = work.pop() {
    if let Some(to) = g0.redirects.get(&s) {
      push(to, &mut work, &mut seen);
    }
    if let Some(m) = mods0.get(&s) {
      reach.insert(s.clone());
      // do not reason through modules whose acceptance depends on how they
      // were first requested
      if obs::acceptance_is_context_sensitive(&b.world, s.as_str()).is_some()
        || m.external().map(|e| e.was_asset_load).unwrap_or(false)
        || mixed.contains(&s)
      {
        continue;
      }
      for d in m.dependencies().values() {
        if d.is_dynamic && b.opts.skip_dynamic_deps {
          continue; // the build did not follow it
        }
        for r in [&d.maybe_code, &d.maybe_type] {
          if let Some(t) = r.maybe_specifier() {
            push(t, &mut work, &mut seen);
          }
        }
      }
      if let Some(td) = m.maybe_types_dependency() {
        if let Some(t) = td.dependency.maybe_specifier() {
          push(t, &mut work, &mut seen);
        }
      }
    }
  }
  let ser0 = obs::serialized_modules(g0);
  let serf = obs::serialized_modules(gf);
  let mut independent = 0;
  for s in &reach {
    let k = s.to_string();
    if obs::acceptance_is_context_sensitive(&b.world, &k).is_some() || mixed.contains(s) {
      continue;
    }
    if let Some(m) = mods0.get(s) {
      if m.external().map(|e| e.was_asset_load).unwrap_or(false) {
        continue;
      }
    }
    independent += 1;
    match (ser0.get(&k), serf.get(&k)) {
      (Some(a), Some(bv)) if a == bv => {}
      (Some(a), other) => {
        o.violate(
          format!(
            "C03/module-independent-of-fault-changed/{}",
            if other.is_none() { "absent" } else { "differs" }
          ),
          format!("{k} does not depend on the faulted specifiers {touched:?}\n fault-free: {a}\n faulted:    {other:?}"),
        );
      }
      _ => {}
    }
  }
  if !fired.is_empty() && independent > 0 {
    o.nontrivial = true;
  }
  fired.len()
}

/// Exhaustive single-fault layer over small base worlds.
pub fn extra(tier: Tier, seed: u64) -> ExtraReport {
  use proptest::test_runner::{Config, RngAlgorithm, TestRng, TestRunner};
  let mut rep = ExtraReport::default();
  let n_worlds = tier.pick(150, 2000);
  let mut seed_bytes = [7u8; 32];
  seed_bytes[..8].copy_from_slice(&seed.to_le_bytes());
  let mut runner = TestRunner::new_with_rng(
    Config::default(),
    TestRng::from_seed(RngAlgorithm::ChaCha, &seed_bytes),
  );
  let strategy = build_case_strategy(GenParams {
    max_entries: 5,
    max_items: 3,
    ..Default::default()
  });
  let mut done = 0;
  let mut tries = 0;
  let mut sigs: BTreeSet<String> = BTreeSet::new();
  while done < n_worlds && tries < n_worlds * 20 {
    tries += 1;
    let b = strategy.new_tree(&mut runner).unwrap().current();
    let (g0, l0) = run(&b, BTreeMap::new(), 0);
    let log0 = l0.log.borrow().clone();
    if log0.is_empty() || log0.len() > 7 {
      continue;
    }
    done += 1;
    let loaded: Vec<String> = {
      let mut v = Vec::new();
      for c in &log0 {
        if !v.contains(&c.spec) {
          v.push(c.spec.clone());
        }
      }
      v
    };
    for call in &log0 {
      let attempt = log0[..call.seq].iter().filter(|c| c.spec == call.spec).count() as u32;
      for kind in 0..11u8 {
        for arg in [0u16, 30000, 60000] {
          if !matches!(kind, 3 | 6 | 9 | 10) && arg != 0 {
            continue;
          }
          let (fault, target) = make_fault(kind, arg, &loaded, &call.spec);
          let mut touched = BTreeSet::new();
          touched.insert(call.spec.clone());
          rehomed_requests(&l0, &call.spec, &fault, &mut touched);
          if let Some(t) = target {
            touched.insert(t);
          }
          close_over_world(&b.world, &mut touched);
          let simple = if attempt == 0 && kind <= 1 {
            vec![(call.spec.clone(), kind)]
          } else {
            vec![]
          };
          let mut plan = BTreeMap::new();
          plan.insert((call.spec.clone(), attempt), fault);
          let case = Case {
            build: b.clone(),
            faults: vec![RawFault {
              call: ((call.seq * 65536 + 32768) / log0.len()).min(65535) as u16,
              kind,
              arg,
            }],
            npm_mode: 0,
            jsr: None,
            jsr_second_build: false,
            jsr_file_redirect: None,
          };
          let case_json = serde_json::to_value(&case).unwrap();
          let res = std::panic::catch_unwind(std::panic::AssertUnwindSafe(|| {
            let mut o = Outcome::default();
            let (gf, lf) = run(&b, plan, 0);
            check_faulted(&b, &g0, &gf, &lf, &touched, &simple, &mut o);
            o
          }));
          rep.evaluations += 1;
          match res {
            Ok(o) => {
              if o.nontrivial {
                rep.nontrivial_hashes.push(crate::runner::hash_json(&case_json));
                if rep.samples.len() < 2 {
                  rep.samples.push(case_json.clone());
                }
              }
              *rep.labels.entry(format!("exhaustive-kind-{kind}")).or_insert(0) += 1;
              for v in o.violations {
                if sigs.insert(v.sig.clone()) {
                  rep.violations.push((v, case_json.clone()));
                }
              }
            }
            Err(_) => {
              let sig = "C03/panic/exhaustive-layer".to_string();
              if sigs.insert(sig.clone()) {
                rep.violations.push((
                  Violation {
                    sig,
                    msg: "panic while building under a single fault".into(),
                  },
                  case_json.clone(),
                ));
              }
            }
          }
        }
      }
    }
  }
  rep.exhaustive = Some(true);
  rep.notes.push(format!(
    "exhaustive layer: {done} base worlds with <= 7 load calls, every (call x fault kind) single fault"
  ));
  let _ = world::POOL;
  rep
}
