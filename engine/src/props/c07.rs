//! C07 — JSR specifiers map to registry URLs through the manifest, with
//! bookkeeping. Oracle: reference computation of redirects, used exports and
//! per-package dependency sets from the registry model and the graph's
//! recorded dependencies; round trip for package URLs.

use crate::harness::{build_into, parse_roots, BuildEnv, PlanNpmResolver, Schedule, WorldLoader};
use crate::registry::{self, Exports, RegFile, RegPackage, RegVersion, Registry, REGISTRY, VERSIONS};
use crate::runner::{idx, Outcome, PropSpec, Tier};
use crate::world::{Entry, Item, Lang, Opts, World};
use deno_graph::source::{DefaultJsrUrlProvider, JsrUrlProvider};
use deno_graph::ModuleGraph;
use deno_semver::jsr::JsrPackageReqReference;
use deno_semver::package::PackageNv;
use proptest::prelude::*;
use serde::{Deserialize, Serialize};
use std::collections::{BTreeMap, BTreeSet};
use url::Url;

pub const NAMES: &[&str] = &["@s/a", "@s/b", "@s/ab", "@t/a"];
const PATHS: &[&str] = &["/mod.ts", "/sub.ts", "/deep/x.ts", "/types.d.ts"];
const REQ_TEXTS: &[&str] = &["^1", "1", "*", "~1.0", "^2", "1.0.4", "^9"];
const SUBPATHS: &[&str] = &["", "", "/sub", "/deep", "/junk", "/nope"];

#[derive(Clone, Debug, Serialize, Deserialize)]
pub struct RawImport {
  /// 0 relative file, 1 jsr requirement, 2 npm requirement, 3 registry https URL
  pub kind: u8,
  pub a: u16,
  pub b: u16,
  pub c: u16,
  /// 0 import, 1 dynamic import, 2 import type, 3 export from
  pub form: u8,
  /// 7 = `with { type: "json" }` (imports and dynamic imports only)
  #[serde(default)]
  pub attr: u8,
}

#[derive(Clone, Debug, Serialize, Deserialize)]
pub struct Case {
  pub registry: Registry,
  pub main: Vec<Item>,
  pub npm_resolver: bool,
  pub kind: u8,
}

fn raw_import() -> impl Strategy<Value = RawImport> {
  (0..4u8, any::<u16>(), any::<u16>(), any::<u16>(), 0..4u8, 0..8u8)
    .prop_map(|(kind, a, b, c, form, attr)| RawImport { kind, a, b, c, form, attr })
}

fn item_of(r: &RawImport, own_path: Option<&str>) -> Item {
  let spec = match r.kind {
    0 if own_path.is_some() => {
      let target = PATHS[idx(r.a, PATHS.len())];
      // relative to the package root: files live at depth 0 or 1
      let own = own_path.unwrap();
      if own.matches('/').count() > 1 {
        format!("..{target}")
      } else {
        format!(".{target}")
      }
    }
    2 => ["npm:pkg@1", "npm:other@^2/sub", "npm:pkg@^1.2"][idx(r.a, 3)].to_string(),
    3 => format!(
      "{REGISTRY}{}/{}{}{}",
      NAMES[idx(r.a, NAMES.len())],
      // now and then a spelling of the version that is not the directory name
      match r.attr {
        5 => "v",
        6 => "=",
        _ => "",
      },
      VERSIONS[idx(r.b, VERSIONS.len())],
      PATHS[idx(r.c, PATHS.len())]
    ),
    _ => format!(
      "jsr:{}@{}{}",
      NAMES[idx(r.a, NAMES.len())],
      REQ_TEXTS[idx(r.b, REQ_TEXTS.len())],
      SUBPATHS[idx(r.c, SUBPATHS.len())]
    ),
  };
  let attr = (r.attr == 7).then(|| "json".to_string());
  match r.form {
    1 => Item::Dynamic {
      spec,
      attr,
      types: None,
    },
    2 => Item::ImportType { spec },
    3 => Item::ExportFrom { spec },
    _ => Item::Import {
      spec,
      attr,
      types: None,
    },
  }
}

fn version_strategy() -> impl Strategy<Value = (u16, u8, Vec<(u16, Vec<RawImport>)>, bool)> {
  (
    any::<u16>(),
    0..4u8,
    proptest::collection::vec(
      (any::<u16>(), proptest::collection::vec(raw_import(), 0..=3)),
      1..=4,
    ),
    proptest::bool::weighted(0.15),
  )
}

pub fn registry_strategy() -> impl Strategy<Value = Registry> {
  proptest::collection::vec(
    (any::<u16>(), proptest::collection::vec(version_strategy(), 1..=3)),
    1..=4,
  )
  .prop_map(|pkgs| {
    let mut reg = Registry::default();
    for (n, versions) in pkgs {
      let name = NAMES[idx(n, NAMES.len())].to_string();
      if reg.packages.iter().any(|p| p.name == name) {
        continue;
      }
      let mut vs: Vec<RegVersion> = Vec::new();
      for (v, exports_kind, files, yanked) in versions {
        let version = VERSIONS[idx(v, VERSIONS.len())].to_string();
        if vs.iter().any(|x| x.version == version) {
          continue;
        }
        let mut fmap: BTreeMap<String, RegFile> = BTreeMap::new();
        // mod.ts always exists
        fmap.insert(
          "/mod.ts".into(),
          RegFile {
            lang: Lang::Ts,
            items: vec![Item::Filler],
            text: None,
          },
        );
        for (p, imports) in files {
          let path = PATHS[idx(p, PATHS.len())].to_string();
          let lang = if path.ends_with(".d.ts") { Lang::Dts } else { Lang::Ts };
          let mut items: Vec<Item> =
            imports.iter().map(|r| item_of(r, Some(&path))).collect();
          items.push(Item::Filler);
          fmap.insert(path, RegFile { lang, items, text: None });
        }
        let exports = match exports_kind {
          0 => Exports::Single("./mod.ts".into()),
          1 => Exports::Map(vec![(".".into(), Some("./mod.ts".into()))]),
          2 => Exports::Map(vec![
            (".".into(), Some("./mod.ts".into())),
            ("./sub".into(), Some("./sub.ts".into())),
            ("./junk".into(), None),
          ]),
          _ => Exports::Map(vec![
            ("./sub".into(), Some("./sub.ts".into())),
            ("./deep".into(), Some("./deep/x.ts".into())),
          ]),
        };
        vs.push(RegVersion {
          version,
          yanked,
          created_day: None,
          exports,
          files: fmap,
          module_graph: 0,
          lockfile_checksum: false,
        });
      }
      reg.packages.push(RegPackage { name, versions: vs });
    }
    reg
  })
}

pub fn spec() -> PropSpec<Case> {
  PropSpec {
    id: "C07",
    strategy: |_tier| {
      (
        registry_strategy(),
        proptest::collection::vec(raw_import(), 1..=5),
        any::<bool>(),
        prop_oneof![3 => Just(0u8), 1 => Just(1u8), 1 => Just(2u8)],
        proptest::option::weighted(0.35, (any::<u16>(), any::<u16>(), 0..4u8)),
      )
        .prop_map(|(registry, main, npm_resolver, kind, repeat)| {
          let mut raws: Vec<RawImport> = main
            .iter()
            .map(|r| {
              let mut r = r.clone();
              if r.kind == 0 {
                r.kind = 1;
              }
              r
            })
            .collect();
          // the same requirement once more, for another export of the
          // package, after everything else (one requirement, two specifiers)
          if let Some((which, sub, form)) = repeat {
            let jsr: Vec<usize> = raws.iter().enumerate().filter(|(_, r)| r.kind == 1).map(|(i, _)| i).collect();
            if !jsr.is_empty() {
              let mut again = raws[jsr[idx(which, jsr.len())]].clone();
              again.c = sub;
              again.form = form;
              raws.push(again);
            }
          }
          Case {
            registry,
            main: raws.iter().map(|r| item_of(r, None)).collect(),
            npm_resolver,
            kind,
          }
        })
        .boxed()
    },
    check,
    cases: |tier| tier.pick(40_000, 800_000),
    rule: "registries of 1-4 packages (names that are prefixes of one another: @s/a, @s/ab, @s/b, @t/a) x 1-3 versions (incl. a prerelease), exports as a string or as a map with 1-3 entries and a non-string value, files importing one another by relative path, by jsr: requirement (root and sub-path exports, missing exports, unsatisfiable requirements), by npm: and by https registry URL, statically / dynamically / as types; a root program importing 1-5 jsr:/npm:/registry URLs, in a third of the cases followed by one of its jsr: requirements once more under another export; all three graph kinds; non-trivial = a package module imports another package, or an export map with >= 2 entries is used, or an unknown export is requested; distinct = distinct case JSON",
    assumptions: &[
      "the dependency sets are computed from the graph's recorded dependencies of the modules of each package (C01 validates those against the sources)",
      "deno_semver parsing of jsr:/npm: specifiers is trusted",
      "the default JsrUrlProvider (https://jsr.io/) is used",
    ],
    crash_is_violation: false,
    extra: None,
    level: "exploration",
  }
}

pub fn nv_of_url(u: &Url) -> Option<(String, String)> {
  // independent re-statement: https://jsr.io/@scope/name/version/...
  let s = u.as_str().strip_prefix(REGISTRY)?;
  let mut parts = s.splitn(4, '/');
  let scope = parts.next()?;
  let name = parts.next()?;
  let version = parts.next()?;
  parts.next()?; // must be inside the version directory
  if !scope.starts_with('@') {
    return None;
  }
  // the directory of a version is named by the version as it prints
  let parsed = deno_semver::Version::parse_standard(version).ok()?;
  if parsed.to_string() != version {
    return None;
  }
  Some((format!("{scope}/{name}"), version.to_string()))
}

pub fn check(case: &Case, _tier: Tier) -> Outcome {
  let mut o = Outcome::default();
  let mat = registry::materialize(&case.registry, false);
  let mut world = World::default();
  world.entries.insert(
    "file:///main.ts".into(),
    Entry::Src {
      lang: Lang::Ts,
      items: case.main.clone(),
      headers: vec![],
    },
  );
  let mut served = crate::harness::materialize(&world);
  served.extend(mat.served);
  let loader = WorldLoader::new(served);
  let opts = Opts {
    kind: case.kind,
    npm_resolver: case.npm_resolver,
    ..Default::default()
  };
  let npm = PlanNpmResolver::default();
  let mut graph = ModuleGraph::new(opts.graph_kind());
  build_into(
    &mut graph,
    parse_roots(&["file:///main.ts".to_string()]),
    vec![],
    BuildEnv {
      loader: &loader,
      opts: &opts,
      locker: None,
      npm: Some(&npm),
      jsr_version_resolver: None,
      prefer_cached: false,
    },
    &Schedule::default(),
    false,
  )
  .expect("ungated build");
  if crate::obs::has_internal_error(&crate::obs::graph_json(&graph)) {
    o.violate("C07/pending-entry", "serialised graph has an internal error entry");
  }
  let provider = DefaultJsrUrlProvider;
  let mappings = graph.packages.mappings().clone();

  // (1) every jsr: specifier requested along a followed edge
  let mut jsr_specs: BTreeSet<Url> = BTreeSet::new();
  for m in graph.modules() {
    for d in m.dependencies().values() {
      for r in [&d.maybe_code, &d.maybe_type] {
        if let Some(s) = r.maybe_specifier() {
          if s.scheme() == "jsr" {
            jsr_specs.insert(s.clone());
          }
        }
      }
    }
  }
  let mut expected_exports: BTreeMap<String, BTreeMap<String, String>> = BTreeMap::new();
  let mut unknown_export = false;
  let mut multi_export = false;
  for s in &jsr_specs {
    let Ok(req_ref) = JsrPackageReqReference::from_specifier(s) else {
      continue;
    };
    let req = req_ref.req();
    let redirect = graph.redirects.get(s);
    let error = graph.module_errors().find(|e| e.specifier() == s);
    let Some(nv) = mappings.get(req) else {
      // not resolved: there must be an error entry
      if error.is_none() {
        o.violate(
          "C07/unresolved-requirement-without-error",
          format!("{s}: no mapping for {req} and no error entry (redirect {redirect:?})"),
        );
      }
      continue;
    };
    let export_name = match req_ref.sub_path() {
      None | Some("") => ".".to_string(),
      Some(p) => format!("./{p}"),
    };
    let version = case
      .registry
      .packages
      .iter()
      .find(|p| p.name == nv.name.as_str())
      .and_then(|p| p.versions.iter().find(|v| v.version == nv.version.to_string()));
    let Some(version) = version else {
      continue; // selected a version the registry lacks (not generated)
    };
    let string_exports: Vec<(String, String)> = match &version.exports {
      Exports::Single(v) => vec![(".".to_string(), v.clone())],
      Exports::Map(m) => m
        .iter()
        .filter_map(|(k, v)| v.clone().map(|v| (k.clone(), v)))
        .collect(),
    };
    if string_exports.len() >= 2 {
      multi_export = true;
    }
    match string_exports.iter().find(|(k, _)| *k == export_name) {
      Some((_, value)) => {
        let expected = Url::parse(&registry::package_url(&nv.name, &nv.version.to_string()))
          .unwrap()
          .join(value)
          .unwrap();
        if redirect != Some(&expected) {
          o.violate(
            "C07/redirect-of-jsr-specifier",
            format!("{s}: redirects to {redirect:?}, expected {expected} (export {export_name} = {value} of {nv})"),
          );
        }
        expected_exports
          .entry(nv.to_string())
          .or_default()
          .insert(export_name.clone(), value.clone());
      }
      None => {
        unknown_export = true;
        match error {
          None => o.violate(
            "C07/unknown-export-without-error",
            format!("{s}: {nv} has no export {export_name} but there is no error entry (redirect {redirect:?})"),
          ),
          Some(e) => {
            let msg = e.to_string();
            if !msg.contains("Unknown export") {
              o.violate("C07/unknown-export-error-kind", format!("{s}: {msg}"));
            } else {
              let listed: BTreeSet<String> = msg
                .lines()
                .filter_map(|l| l.trim().strip_prefix("* ").map(|x| x.to_string()))
                .collect();
              let exp: BTreeSet<String> =
                string_exports.iter().map(|(k, _)| k.clone()).collect();
              if listed != exp {
                o.violate(
                  "C07/unknown-export-lists-wrong-exports",
                  format!("{s}: lists {listed:?}, manifest has {exp:?}"),
                );
              }
            }
          }
        }
      }
    }
  }
  // (2) used exports per package
  for (nv, exp) in &expected_exports {
    let pnv = PackageNv::from_str(nv).unwrap();
    let got: BTreeMap<String, String> = graph
      .packages
      .package_exports(&pnv)
      .map(|m| m.iter().map(|(a, b)| (a.clone(), b.clone())).collect())
      .unwrap_or_default();
    if &got != exp {
      o.violate(
        "C07/package-exports",
        format!("{nv}: package_exports {got:?}, expected {exp:?}"),
      );
    }
  }
  for (nv, _) in graph.packages.packages_with_deps() {
    let got = graph.packages.package_exports(nv).cloned().unwrap_or_default();
    if !got.is_empty() && !expected_exports.contains_key(&nv.to_string()) {
      o.violate("C07/package-exports", format!("{nv}: unexpected exports {got:?}"));
    }
  }
  // (3) dependency sets per registry package
  let mut expected_deps: BTreeMap<String, std::collections::HashSet<deno_semver::jsr::JsrDepPackageReq>> = BTreeMap::new();
  let mut cross_package = false;
  for m in graph.modules() {
    let Some((name, version)) = nv_of_url(m.specifier()) else {
      continue;
    };
    let key = format!("{name}@{version}");
    let set = expected_deps.entry(key).or_default();
    let mut add = |s: &Url| match s.scheme() {
      "jsr" => {
        if let Ok(r) = JsrPackageReqReference::from_specifier(s) {
          if !matches!(r.req().version_req.inner(), deno_semver::RangeSetOrTag::Tag(_)) {
            set.insert(deno_semver::jsr::JsrDepPackageReq::jsr(r.req().clone()));
          }
        }
      }
      "npm" => {
        if let Ok(r) = deno_semver::npm::NpmPackageReqReference::from_specifier(s) {
          set.insert(deno_semver::jsr::JsrDepPackageReq::npm(r.req().clone()));
        }
      }
      _ => {}
    };
    for d in m.dependencies().values() {
      for r in [&d.maybe_code, &d.maybe_type] {
        if let Some(s) = r.maybe_specifier() {
          add(s);
        }
      }
    }
    if let Some(td) = m.maybe_types_dependency() {
      if let Some(s) = td.dependency.maybe_specifier() {
        add(s);
      }
    }
  }
  let got_deps: BTreeMap<String, std::collections::HashSet<deno_semver::jsr::JsrDepPackageReq>> = graph
    .packages
    .packages_with_deps()
    .map(|(nv, deps)| (nv.to_string(), deps.cloned().collect()))
    .collect();
  for (nv, exp) in &expected_deps {
    if !exp.is_empty() {
      cross_package = true;
    }
    match got_deps.get(nv) {
      None => o.violate(
        "C07/package-missing-from-table",
        format!("{nv} has modules in the graph but no entry in packages_with_deps()"),
      ),
      Some(got) => {
        if got != exp {
          let missing: Vec<String> = exp.difference(got).map(|d| d.to_string()).collect();
          let extra: Vec<String> = got.difference(exp).map(|d| d.to_string()).collect();
          o.violate(
            format!(
              "C07/package-dependencies/{}",
              if !missing.is_empty() { "missing" } else { "extra" }
            ),
            format!("{nv}: missing {missing:?}, extra {extra:?}"),
          );
        }
      }
    }
  }
  // (4) URL <-> name@version
  for p in &case.registry.packages {
    for v in &p.versions {
      let nv = PackageNv::from_str(&format!("{}@{}", p.name, v.version)).unwrap();
      let url = provider.package_url(&nv);
      if url.as_str() != registry::package_url(&p.name, &v.version) {
        o.violate("C07/package-url", format!("{nv}: {url}"));
      }
      if provider.package_url_to_nv(&url).as_ref() != Some(&nv) {
        o.violate(
          "C07/package-url-round-trip",
          format!("{nv} -> {url} -> {:?}", provider.package_url_to_nv(&url)),
        );
      }
    }
  }
  let mut urls: BTreeSet<Url> = graph.specifiers().map(|(s, _)| s.clone()).collect();
  urls.extend(graph.redirects.values().cloned());
  // look-alikes of every package file: another host, another scheme, the
  // registry host as a prefix of the host, the package path under a prefix,
  // a version spelled otherwise, the bare version directory
  for p in &case.registry.packages {
    for v in &p.versions {
      for path in v.files.keys().take(2) {
        for look_alike in [
          format!("https://h.test/{}/{}{path}", p.name, v.version),
          format!("http://jsr.io/{}/{}{path}", p.name, v.version),
          format!("https://jsr.io.h.test/{}/{}{path}", p.name, v.version),
          format!("{REGISTRY}x/{}/{}{path}", p.name, v.version),
          format!("{REGISTRY}{}/v{}{path}", p.name, v.version),
          format!("{REGISTRY}{}/{}.0{path}", p.name, v.version),
          format!("{REGISTRY}{}/{}{path}", p.name.trim_start_matches('@'), v.version),
          format!("{REGISTRY}{}/{}{path}", p.name, v.version),
        ] {
          if let Ok(u) = Url::parse(&look_alike) {
            urls.insert(u);
          }
        }
      }
    }
  }
  for u in &urls {
    let got = provider.package_url_to_nv(u).map(|nv| (nv.name.to_string(), nv.version.to_string()));
    let exp = nv_of_url(u);
    if got != exp {
      // the implementation may also accept the bare package directory
      let tolerated = exp.is_none()
        && got
          .as_ref()
          .map(|(n, v)| u.as_str().starts_with(&format!("{REGISTRY}{n}/{v}")))
          .unwrap_or(false);
      if !tolerated {
        o.violate(
          "C07/url-attributed-to-wrong-package",
          format!("{u}: package_url_to_nv = {got:?}, expected {exp:?}"),
        );
      }
    }
  }
  if cross_package {
    o.label("package-imports-package");
  }
  if unknown_export {
    o.label("unknown-export");
  }
  if multi_export {
    o.label("multi-entry-export-map");
  }
  o.label(format!("kind-{}", case.kind));
  o.nontrivial = cross_package || unknown_export || multi_export;
  o
}

// ---------------------------------------------------------------------------
// a registry plus an entry module importing from it, reusable by other checks

#[derive(Clone, Debug, Serialize, Deserialize)]
pub struct JsrPart {
  pub registry: Registry,
  /// items of the entry module `file:///jsr_main.ts`
  pub imports: Vec<Item>,
  pub prefer_cached: bool,
  /// version manifests (by global index) present in the loader's cache
  pub cached_manifests: Vec<u16>,
  pub with_module_graph: bool,
}

pub const JSR_MAIN: &str = "file:///jsr_main.ts";

pub fn jsr_part_strategy() -> impl Strategy<Value = JsrPart> {
  (
    registry_strategy(),
    proptest::collection::vec(raw_import(), 1..=5),
    proptest::bool::weighted(0.4),
    proptest::collection::vec(any::<u16>(), 0..=3),
    any::<bool>(),
    proptest::bool::weighted(0.3),
  )
    .prop_map(|(mut registry, imports, prefer_cached, cached_manifests, with_module_graph, shared_dep)| {
      // every package entry imports the same specifier (one that fails when
      // no npm resolver is configured) and the root imports every package:
      // whose import the error names depends on the order the entrypoints
      // are visited in
      let mut extra_imports: Vec<Item> = Vec::new();
      if shared_dep && registry.packages.len() >= 2 {
        for p in registry.packages.iter_mut() {
          for v in p.versions.iter_mut() {
            if let Some(f) = v.files.get_mut("/mod.ts") {
              f.items.insert(
                0,
                Item::Import {
                  spec: "npm:pkg@1".into(),
                  attr: None,
                  types: None,
                },
              );
            }
          }
          extra_imports.push(Item::Import {
            spec: format!("jsr:{}@*", p.name),
            attr: None,
            types: None,
          });
        }
      }
      if with_module_graph {
        for p in registry.packages.iter_mut() {
          for v in p.versions.iter_mut() {
            v.module_graph = 1;
          }
        }
      }
      JsrPart {
        registry,
        imports: imports
          .iter()
          .map(|r| {
            let mut r = r.clone();
            if r.kind == 0 || r.kind == 2 {
              r.kind = 1;
            }
            item_of(&r, None)
          })
          .chain(extra_imports)
          .collect(),
        prefer_cached,
        cached_manifests,
        with_module_graph,
      }
    })
}

impl JsrPart {
  /// Adds the registry and the entry module to `served`; returns the cache
  /// image (URLs that answer `CacheSetting::Only`).
  pub fn install(
    &self,
    served: &mut BTreeMap<Url, crate::harness::Served>,
  ) -> BTreeSet<Url> {
    let mat = registry::materialize(&self.registry, self.with_module_graph);
    served.extend(mat.served);
    let main = Url::parse(JSR_MAIN).unwrap();
    served.insert(
      main.clone(),
      crate::harness::Served::Module {
        bytes: crate::world::render(Lang::Ts, &self.imports).into_bytes().into(),
        headers: None,
        final_spec: main,
      },
    );
    let mut manifests: Vec<Url> = Vec::new();
    for p in &self.registry.packages {
      for v in &p.versions {
        manifests.push(
          Url::parse(&format!("{REGISTRY}{}/{}_meta.json", p.name, v.version)).unwrap(),
        );
      }
    }
    let mut cache = BTreeSet::new();
    if !manifests.is_empty() {
      for c in &self.cached_manifests {
        cache.insert(manifests[idx(*c, manifests.len())].clone());
      }
    }
    cache
  }
}
