//! Generator of multi-module TypeScript packages with a *recorded* intended
//! public API: which declarations are reachable from the entrypoints through
//! signature positions only (the expected retained set) and whether a public
//! declaration is deliberately non-inferable (a diagnostic must be produced).
//!
//! Every declaration draws references to earlier declarations; each reference
//! is written either in a *signature position* (type annotations of public
//! members / parameters / returns, type-parameter constraints and defaults,
//! heritage clauses and their type arguments, overload signatures, interface
//! and alias bodies, public / protected parameter properties, exported
//! namespace members) or in an *implementation position* (function bodies,
//! the implementation signature of an overloaded function / method /
//! constructor, TypeScript-private and #private members, parameters of a
//! private constructor, initialisers of annotated variables). Only
//! references that were really written are recorded.

use crate::runner::idx;
use proptest::prelude::*;
use serde::{Deserialize, Serialize};
use std::collections::{BTreeMap, BTreeSet};

#[derive(Clone, Copy, Debug, Serialize, Deserialize, PartialEq, Eq)]
pub enum Kind {
  Class,
  Interface,
  Alias,
  Enum,
  Function,
  Var,
  Namespace,
}

impl Kind {
  pub fn is_type(self) -> bool {
    matches!(self, Kind::Class | Kind::Interface | Kind::Alias | Kind::Enum)
  }
  pub fn is_value(self) -> bool {
    matches!(self, Kind::Class | Kind::Enum | Kind::Function | Kind::Var)
  }
}

#[derive(Clone, Debug, Serialize, Deserialize)]
pub struct RawDecl {
  pub kind: u8,
  pub module: u8,
  pub exported: bool,
  /// references placed in signature positions (indices into earlier decls)
  pub sig_refs: Vec<u16>,
  /// references placed in implementation positions only
  pub impl_refs: Vec<u16>,
  /// 0 fully annotated, 1 trivially inferable, 2 non-inferable, 3 an
  /// un-annotated initialiser of unknown standing (no expectation)
  pub explicitness: u8,
  /// how cross-module references are written: 0 named import, 1 `import
  /// type`, 2 namespace import + qualified name, 3 `import("...")` type;
  /// +4: through a module that re-exports the target, +8: non-canonical path
  pub import_style: u8,
  pub variant: u8,
  /// further shape bits (members, overloads, accessors, expando, ...)
  #[serde(default)]
  pub shape: u16,
}

#[derive(Clone, Debug, Serialize, Deserialize)]
pub struct RawPackage {
  pub decls: Vec<RawDecl>,
  pub n_modules: u8,
  /// re-exports written in the entry module: (module, style) style 0 named,
  /// 1 star, 2 `* as ns`, 3 `export type`
  pub reexports: Vec<(u8, u8)>,
  /// second entrypoint exported by the package
  pub second_entry: bool,
  pub default_export: Option<u16>,
  /// re-exports written in the other modules: (from, to, style, pick)
  #[serde(default)]
  pub inner_reexports: Vec<(u8, u8, u8, u16)>,
  /// keep a by-name re-export whose target re-exports the re-exporting module
  /// back (a recorded finding; never set by the generator)
  #[serde(default)]
  pub allow_named_cycle: bool,
  /// default exports of the other modules: (module, pick of a declaration)
  #[serde(default)]
  pub inner_defaults: Vec<(u8, u16)>,
  /// write by-name re-exports before namespace re-exports
  #[serde(default)]
  pub named_first: bool,
}

pub fn raw_package(max_decls: usize) -> impl Strategy<Value = RawPackage> {
  let decl = (
    0..7u8,
    0..4u8,
    proptest::bool::weighted(0.45),
    proptest::collection::vec(any::<u16>(), 0..=4),
    proptest::collection::vec(any::<u16>(), 0..=3),
    prop_oneof![12 => Just(0u8), 6 => Just(1u8), 2 => Just(2u8), 1 => Just(3u8)],
    0..16u8,
    any::<u8>(),
    any::<u16>(),
  )
    .prop_map(
      |(kind, module, exported, sig_refs, impl_refs, explicitness, import_style, variant, shape)| RawDecl {
        kind,
        module,
        exported,
        sig_refs,
        impl_refs,
        explicitness,
        import_style,
        variant,
        shape,
      },
    );
  (
    proptest::collection::vec(decl, 1..=max_decls),
    1..=4u8,
    proptest::collection::vec((0..4u8, 0..4u8), 0..=3),
    proptest::bool::weighted(0.3),
    proptest::option::weighted(0.2, any::<u16>()),
    proptest::collection::vec(
      (1..4u8, 0..4u8, prop_oneof![2 => Just(0u8), 4 => Just(1u8), 2 => Just(2u8), 1 => Just(3u8)], any::<u16>()),
      0..=4,
    ),
    proptest::collection::vec((1..4u8, any::<u16>()), 0..=2),
    any::<bool>(),
  )
    .prop_map(
      |(decls, n_modules, reexports, second_entry, default_export, inner_reexports, inner_defaults, named_first)| RawPackage {
        decls,
        n_modules,
        reexports,
        second_entry,
        default_export,
        inner_reexports,
        allow_named_cycle: false,
        inner_defaults,
        named_first,
      },
    )
}

pub const MODULE_PATHS: &[&str] = &["/mod.ts", "/a.ts", "/sub/b.ts", "/sub/deep/c.ts"];

/// relative specifier from module path `from` to module path `to`
pub fn rel(from: &str, to: &str, noncanonical: bool) -> String {
  let fd: Vec<&str> = from.rsplit_once('/').map(|x| x.0).unwrap_or("").split('/').filter(|s| !s.is_empty()).collect();
  let tp: Vec<&str> = to.split('/').filter(|s| !s.is_empty()).collect();
  let tdirs = &tp[..tp.len() - 1];
  let mut common = 0;
  while common < fd.len() && common < tdirs.len() && fd[common] == tdirs[common] {
    common += 1;
  }
  let ups = fd.len() - common;
  let mut s = if ups == 0 { "./".to_string() } else { "../".repeat(ups) };
  if noncanonical {
    s.push_str("zz/../");
  }
  s.push_str(&tp[common..].join("/"));
  s
}

#[derive(Clone, Debug)]
pub struct Decl {
  pub name: String,
  pub kind: Kind,
  pub module: usize,
  /// exported from its module with `export`
  pub exported: bool,
  pub sig_refs: Vec<usize>,
  pub impl_refs: Vec<usize>,
  pub non_inferable: bool,
  /// un-annotated initialiser of unknown standing
  pub maybe_inferable: bool,
  /// declared with type parameters (all of which have defaults)
  pub generic: bool,
  /// namespaces: the references written in the member `In`, which is all a
  /// qualified reference `N.In` makes public
  pub member_refs: Vec<usize>,
}

#[derive(Clone, Debug, Default)]
pub struct Recorded {
  /// module path -> names the module exports itself (own declarations,
  /// re-exports by name, `default`, `* as ns`)
  pub exports: BTreeMap<String, BTreeSet<String>>,
  /// module path -> specifiers of `export * from`
  pub star_exports: BTreeMap<String, Vec<String>>,
  /// (module path, declaration name) expected to survive
  pub retained: BTreeSet<(String, String)>,
  /// declarations that may or may not survive (public only as the default
  /// member of a namespace re-export)
  pub maybe_retained: BTreeSet<(String, String)>,
  /// all module-level declaration names per module
  pub declared: BTreeMap<String, BTreeSet<String>>,
  /// a retained declaration is deliberately non-inferable
  pub expects_diagnostic: bool,
  /// a retained declaration has an initialiser of unknown standing
  pub maybe_diagnostic: bool,
  pub entrypoints: Vec<String>,
  pub has_impl_only_private: bool,
  pub has_sig_private: bool,
  pub cross_module_refs: usize,
  pub max_chain: usize,
  /// shapes that were written (for the label histogram)
  pub shapes: BTreeSet<&'static str>,
  /// namespaces that are public as a whole (exported by an entrypoint, not
  /// merely named through `N.In`): (module path, name)
  pub whole_namespaces: BTreeSet<(String, String)>,
  /// a by-name re-export sits inside a cycle of re-exports
  pub named_reexport_in_cycle: bool,
  /// by-name re-exports left out because they would sit inside such a cycle
  pub excluded_named_cycles: usize,
}

#[derive(Clone, Debug)]
pub struct Package {
  /// path -> source text
  pub files: BTreeMap<String, String>,
  /// exports map of the version manifest
  pub exports: Vec<(String, String)>,
  pub rec: Recorded,
  pub decls: Vec<Decl>,
}

fn kind_of(k: u8) -> Kind {
  match k % 7 {
    0 => Kind::Class,
    1 => Kind::Interface,
    2 => Kind::Alias,
    3 => Kind::Enum,
    4 => Kind::Function,
    5 => Kind::Var,
    _ => Kind::Namespace,
  }
}

struct ModuleOut {
  imports: BTreeMap<(usize, u8, bool), BTreeSet<String>>, // (module, style, noncanonical) -> names
  ns_imports: BTreeSet<usize>,
  body: String,
}

const EXP: &str = "\u{1}E\u{1}";

struct Ctx<'a> {
  raw: &'a RawPackage,
  decls: Vec<Decl>,
  outs: Vec<ModuleOut>,
  rec: Recorded,
  /// star_reach[m] = modules whose exports `m` passes on through `export *`
  star_reach: Vec<BTreeSet<usize>>,
  star_dist: Vec<Vec<usize>>,
}

impl Ctx<'_> {
  /// text of a reference from declaration `i` to declaration `j`
  fn ref_text(&mut self, i: usize, j: usize, type_pos: bool, bare: bool) -> String {
    let from = self.decls[i].module;
    let to = self.decls[j].module;
    let name = self.decls[j].name.clone();
    let kind = self.decls[j].kind;
    let typeof_needed = type_pos && !bare && !kind.is_type() && kind != Kind::Namespace;
    let style_all = self.raw.decls[i].import_style;
    let style = style_all % 4;
    let base = if from == to {
      name.clone()
    } else {
      self.rec.cross_module_refs += 1;
      // through a module that re-exports everything of `to`
      // (the module with the longest chain of `export *` to the target)
      let via = if style_all & 4 != 0 {
        (0..self.outs.len())
          .filter(|m| *m != from && *m != to && self.star_reach[*m].contains(&to))
          .max_by_key(|m| self.star_dist[*m][to])
      } else {
        None
      };
      if let Some(m) = via {
        if self.star_dist[m][to] >= 2 {
          self.rec.shapes.insert("import-through-two-star-hops");
        }
      }
      let src = via.unwrap_or(to);
      if via.is_some() {
        self.rec.shapes.insert("import-through-re-export");
      }
      let nc = style_all & 8 != 0;
      if nc {
        self.rec.shapes.insert("non-canonical-specifier");
      }
      match style {
        2 => {
          self.outs[from].ns_imports.insert(src);
          format!("m{src}.{name}")
        }
        3 if type_pos && !typeof_needed && !bare => {
          format!("import(\"{}\").{name}", rel(MODULE_PATHS[from], MODULE_PATHS[src], nc))
        }
        1 if type_pos && !bare && matches!(kind, Kind::Interface | Kind::Alias) => {
          self.outs[from].imports.entry((src, 1, nc)).or_default().insert(name.clone());
          name.clone()
        }
        _ => {
          self.outs[from].imports.entry((src, 0, nc)).or_default().insert(name.clone());
          name.clone()
        }
      }
    };
    if kind == Kind::Namespace {
      // a member of the namespace (every namespace shape exports `In`)
      self.rec.shapes.insert("qualified-namespace-member");
      return format!("{base}.In");
    }
    if typeof_needed {
      format!("typeof {base}")
    } else {
      base
    }
  }
}

struct Slots {
  sig: Vec<(usize, bool)>,
  imp: Vec<(usize, bool)>,
  prim: usize,
}

impl Slots {
  /// the next unused signature reference as a type, or a primitive
  fn s(&mut self, cx: &mut Ctx, i: usize) -> String {
    for k in 0..self.sig.len() {
      if !self.sig[k].1 {
        self.sig[k].1 = true;
        let j = self.sig[k].0;
        return cx.ref_text(i, j, true, false);
      }
    }
    self.prim += 1;
    ["number", "string", "boolean"][self.prim % 3].to_string()
  }
  /// an unused signature reference of a given kind, as a bare name
  fn s_kind(&mut self, cx: &mut Ctx, i: usize, pred: impl Fn(Kind) -> bool) -> Option<(usize, String)> {
    for k in 0..self.sig.len() {
      let j = self.sig[k].0;
      if !self.sig[k].1 && pred(cx.decls[j].kind) {
        self.sig[k].1 = true;
        return Some((j, cx.ref_text(i, j, true, true)));
      }
    }
    None
  }
  /// the next unused implementation reference as a type
  fn i(&mut self, cx: &mut Ctx, i: usize) -> Option<String> {
    for k in 0..self.imp.len() {
      if !self.imp[k].1 {
        self.imp[k].1 = true;
        let j = self.imp[k].0;
        return Some(cx.ref_text(i, j, true, false));
      }
    }
    None
  }
  fn i_or(&mut self, cx: &mut Ctx, i: usize, fallback: &str) -> String {
    self.i(cx, i).unwrap_or_else(|| fallback.to_string())
  }
  /// all remaining implementation references as body statements
  fn body(&mut self, cx: &mut Ctx, i: usize) -> String {
    let mut s = String::new();
    let mut k = 0;
    while let Some(t) = self.i(cx, i) {
      s.push_str(&format!(" const t{k}: {t} = null as any; void t{k};"));
      k += 1;
    }
    s
  }
}

pub fn build(raw: &RawPackage) -> Package {
  let n_modules = raw.n_modules.clamp(1, 4) as usize;
  // ----- declarations and their candidate references (earlier declarations
  // only, which keeps the reference graph acyclic; cycles come from re-exports)
  let mut decls: Vec<Decl> = Vec::new();
  for (i, r) in raw.decls.iter().enumerate() {
    let kind = kind_of(r.kind);
    let module = (r.module as usize) % n_modules;
    let pick = |refs: &Vec<u16>, decls: &Vec<Decl>| -> Vec<usize> {
      let mut out = Vec::new();
      if decls.is_empty() {
        return out;
      }
      for r in refs {
        let j = idx(*r, decls.len());
        if !out.contains(&j) {
          out.push(j);
        }
      }
      out
    };
    let sig_refs = if matches!(kind, Kind::Enum) { vec![] } else { pick(&r.sig_refs, &decls) };
    let mut impl_refs = if matches!(kind, Kind::Function | Kind::Var | Kind::Class) {
      pick(&r.impl_refs, &decls)
    } else {
      vec![]
    };
    impl_refs.retain(|j| !sig_refs.contains(j));
    let non_inferable = r.explicitness == 2 && matches!(kind, Kind::Function | Kind::Var);
    let maybe_inferable = r.explicitness == 3 && kind == Kind::Var;
    decls.push(Decl {
      name: format!("D{i}"),
      kind,
      module,
      exported: r.exported,
      sig_refs,
      impl_refs,
      non_inferable,
      maybe_inferable,
      generic: false,
      member_refs: Vec::new(),
    });
  }

  // ----- re-export structure (decided before rendering: references may go
  // through a re-exporting module)
  // star[m] = targets of `export * from`, named[m] = (target, style, pick),
  // ns[m] = targets of `export * as ns<k> from`
  let mut star: Vec<Vec<usize>> = vec![Vec::new(); n_modules];
  let mut named: Vec<Vec<(usize, u8, u16)>> = vec![Vec::new(); n_modules];
  let mut ns: Vec<Vec<usize>> = vec![Vec::new(); n_modules];
  // Cycles of pass-through re-exports (`export *` / by-name) are left out:
  // fast check follows the first `export *` whose target lists a name even
  // when that listing only leads back through the cycle (a recorded finding,
  // see known_findings.json); `allow_named_cycle` keeps them for that case.
  let mut excluded_cycles = 0usize;
  let mut in_cycle = false;
  {
    let mut used: BTreeSet<(usize, usize, u8)> = BTreeSet::new();
    let mut pass: Vec<Vec<usize>> = vec![Vec::new(); n_modules];
    let mut all: Vec<(usize, usize, u8, u16)> = Vec::new();
    for (m, style) in &raw.reexports {
      all.push((0, (*m as usize) % n_modules, *style % 4, 0));
    }
    for (from, to, style, pickv) in &raw.inner_reexports {
      let from = (*from as usize) % n_modules;
      if from != 0 {
        all.push((from, (*to as usize) % n_modules, *style % 4, *pickv));
      }
    }
    for (from, to, style, pickv) in all {
      if from == to || !used.insert((from, to, style)) {
        continue;
      }
      if style != 2 {
        // would `to` pass things back to `from`?
        let mut seen: BTreeSet<usize> = BTreeSet::new();
        let mut work = vec![to];
        let mut cyc = false;
        while let Some(x) = work.pop() {
          if x == from {
            cyc = true;
            break;
          }
          if seen.insert(x) {
            work.extend(pass[x].iter().copied());
          }
        }
        if cyc {
          if raw.allow_named_cycle {
            in_cycle = true;
          } else {
            excluded_cycles += 1;
            continue;
          }
        }
        pass[from].push(to);
      }
      match style {
        1 => star[from].push(to),
        2 => ns[from].push(to),
        s => named[from].push((to, s, pickv)),
      }
    }
  }
  let mut star_reach: Vec<BTreeSet<usize>> = vec![BTreeSet::new(); n_modules];
  // star_dist[m][t] = number of `export *` hops from m to t (0 = unreachable)
  let mut star_dist: Vec<Vec<usize>> = vec![vec![0; n_modules]; n_modules];
  for m in 0..n_modules {
    let mut work: std::collections::VecDeque<(usize, usize)> = star[m].iter().map(|t| (*t, 1)).collect();
    while let Some((t, d)) = work.pop_front() {
      if t != m && star_reach[m].insert(t) {
        star_dist[m][t] = d;
        work.extend(star[t].iter().map(|u| (*u, d + 1)));
      }
    }
  }

  let outs: Vec<ModuleOut> = (0..n_modules)
    .map(|_| ModuleOut {
      imports: BTreeMap::new(),
      ns_imports: BTreeSet::new(),
      body: String::new(),
    })
    .collect();
  let mut cx = Ctx {
    raw,
    decls,
    outs,
    rec: Recorded {
      named_reexport_in_cycle: in_cycle,
      excluded_named_cycles: excluded_cycles,
      ..Default::default()
    },
    star_reach,
    star_dist,
  };

  // ----- render the declarations
  for i in 0..cx.decls.len() {
    let d = cx.decls[i].clone();
    let r = &raw.decls[i];
    let v = r.variant as usize;
    let sh = r.shape as usize;
    let mut sl = Slots {
      sig: d.sig_refs.iter().map(|j| (*j, false)).collect(),
      imp: d.impl_refs.iter().map(|j| (*j, false)).collect(),
      prim: i,
    };
    let name = d.name.clone();
    let mut generic = false;
    let mut class_maybe = false;
    let mut member_refs: Vec<usize> = Vec::new();
    let text = match d.kind {
      Kind::Class => {
        let is_abstract = sh & 0x100 != 0;
        let mut s = format!("{EXP}{}class {name}", if is_abstract { "abstract " } else { "" });
        if is_abstract {
          cx.rec.shapes.insert("abstract-class");
        }
        match v % 4 {
          1 => {
            s.push_str("<T = unknown>");
            generic = true;
          }
          2 => {
            let c = sl.s(&mut cx, i);
            let dflt = sl.s(&mut cx, i);
            s.push_str(&format!("<T extends {c} = {dflt}>"));
            generic = true;
            cx.rec.shapes.insert("type-param-constraint-and-default");
          }
          _ => {}
        }
        let ext = sl.s_kind(&mut cx, i, |k| k == Kind::Class);
        if let Some((j, e)) = &ext {
          if cx.decls[*j].generic {
            let a = sl.s(&mut cx, i);
            s.push_str(&format!(" extends {e}<{a}>"));
            cx.rec.shapes.insert("heritage-type-arguments");
          } else {
            s.push_str(&format!(" extends {e}"));
          }
        }
        if sh & 0x200 != 0 {
          if let Some((j, e)) = sl.s_kind(&mut cx, i, |k| k == Kind::Interface) {
            if cx.decls[j].generic {
              let a = sl.s(&mut cx, i);
              s.push_str(&format!(" implements {e}<{a}>"));
              cx.rec.shapes.insert("heritage-type-arguments");
            } else {
              s.push_str(&format!(" implements {e}"));
            }
          }
        }
        s.push_str(" {\n");
        s.push_str(&format!("  p0: {};\n", sl.s(&mut cx, i)));
        if sh & 1 != 0 {
          s.push_str(&format!("  readonly r0?: {};\n", sl.s(&mut cx, i)));
        }
        s.push_str(&format!("  static s0: {} = null as any;\n", sl.s(&mut cx, i)));
        if sh & 2 != 0 {
          s.push_str(&format!("  protected pr0: {} = null as any;\n", sl.s(&mut cx, i)));
          cx.rec.shapes.insert("protected-member");
        }
        s.push_str(&format!("  private q0: {} = null as any;\n", sl.i_or(&mut cx, i, "number")));
        s.push_str("  #h0 = 1;\n");
        let sup = if ext.is_some() { " super(null as any);" } else { "" };
        match (v >> 2) % 4 {
          0 => {
            let a = sl.s(&mut cx, i);
            let b = sl.body(&mut cx, i);
            if sh & 64 != 0 {
              // a decorator on a plain constructor parameter
              s.push_str(&format!("  constructor(@Reflect.metadata(\"p\", [1]) x: {a}) {{{sup} this.#h0 = 2;{b} }}\n"));
              cx.rec.shapes.insert("decorated-constructor-parameter");
            } else {
              s.push_str(&format!("  constructor(x: {a}) {{{sup} this.#h0 = 2;{b} }}\n"));
            }
          }
          1 => {
            let a = sl.s(&mut cx, i);
            let b0 = sl.s(&mut cx, i);
            // (the property is private, the constructor parameter is public)
            let pv = sl.s(&mut cx, i);
            let b = sl.body(&mut cx, i);
            s.push_str(&format!(
              "  constructor(protected pp: {a}, public readonly ro: {b0}, private pv: {pv}, x = 1) {{{sup} this.#h0 = x; void this.pv;{b} }}\n"
            ));
            cx.rec.shapes.insert("parameter-properties");
          }
          2 => {
            let a = sl.i_or(&mut cx, i, "number");
            let b = sl.body(&mut cx, i);
            s.push_str(&format!(
              "  private constructor(a: {a}, b?: string) {{{sup} this.#h0 = 3; void a; void b;{b} }}\n"
            ));
            cx.rec.shapes.insert("private-constructor-with-body");
          }
          _ => {
            let a = sl.s(&mut cx, i);
            let a2 = sl.s(&mut cx, i);
            let im = sl.i_or(&mut cx, i, "any");
            let b = sl.body(&mut cx, i);
            s.push_str(&format!("  constructor(a: {a});\n  constructor(a: {a2}, b: number);\n"));
            s.push_str(&format!("  constructor(a: {im} | any, b?: any) {{{sup} void a; void b;{b} }}\n"));
            cx.rec.shapes.insert("constructor-overloads");
          }
        }
        if sh & 4 != 0 {
          let p = sl.i_or(&mut cx, i, "string");
          s.push_str(&format!("  private static ps(opt: {p}): void {{}}\n"));
        }
        {
          let a = sl.s(&mut cx, i);
          let ret = sl.s(&mut cx, i);
          s.push_str(&format!("  m0(a: {a}, b?: number): {ret} {{ return null as any; }}\n"));
        }
        if sh & 8 != 0 {
          let a = sl.s(&mut cx, i);
          let a2 = sl.s(&mut cx, i);
          let im = sl.i_or(&mut cx, i, "any");
          s.push_str(&format!("  m1(a: {a}): void;\n  m1(a: {a2}, b: string): void;\n"));
          s.push_str(&format!("  m1(a: {im} | any, b?: any): void {{ void a; void b; }}\n"));
          cx.rec.shapes.insert("method-overloads");
        }
        {
          let g = sl.s(&mut cx, i);
          s.push_str(&format!("  get g0(): {g} {{ return null as any; }}\n"));
          if sh & 16 != 0 {
            s.push_str(&format!("  set g0(v: {g}) {{ void v; }}\n"));
            cx.rec.shapes.insert("getter-and-setter");
          }
        }
        if sh & 32 != 0 {
          let a = sl.s(&mut cx, i);
          s.push_str(&format!("  static sm(a: {a}): {a} {{ return a; }}\n"));
        }
        {
          let p = sl.i_or(&mut cx, i, "number");
          s.push_str(&format!("  private pm(a: {p}): void {{ void a; }}\n"));
        }
        if sh & 128 != 0 {
          // TypeScript-private accessors: annotated and not
          let p = sl.i_or(&mut cx, i, "string");
          s.push_str(&format!("  private get pg(): {p} {{ return null as any; }}\n  private set pg(v: {p}) {{ void v; }}\n"));
          if sh & 256 != 0 {
            s.push_str("  private get pu() { return 1; }\n  private static get ps2() { return [1]; }\n");
          }
          cx.rec.shapes.insert("ts-private-accessors");
        }
        if is_abstract {
          let a = sl.s(&mut cx, i);
          s.push_str(&format!("  abstract am(a: {a}): {a};\n"));
        }
        if r.explicitness == 1 {
          s.push_str("  inferred = 1;\n  v0() {}\n");
        }
        if r.explicitness == 3 {
          // members of unknown standing (the output grammar decides)
          cx.rec.shapes.insert("class-members-of-unknown-standing");
          class_maybe = true;
          match v % 4 {
            0 => s.push_str("  get gx() { return 1; }\n"),
            1 => s.push_str("  @Reflect.metadata(\"k\", { max: 5 }) dp = [1, 2];\n"),
            2 => s.push_str("  @Reflect.metadata(\"k\", 1) dq: number = 1;\n  @Reflect.metadata(\"m\", 2) dm(): void {}\n"),
            _ => s.push_str("  dr = (a: number): string => String(a);\n  static ds = { a: 1 };\n"),
          }
        }
        s.push_str("}\n");
        s
      }
      Kind::Interface => {
        let mut s = format!("{EXP}interface {name}");
        match v % 4 {
          1 => {
            s.push_str("<T = unknown>");
            generic = true;
          }
          2 => {
            let c = sl.s(&mut cx, i);
            let dflt = sl.s(&mut cx, i);
            s.push_str(&format!("<T extends {c} = {dflt}>"));
            generic = true;
            cx.rec.shapes.insert("type-param-constraint-and-default");
          }
          _ => {}
        }
        let mut ext: Vec<String> = Vec::new();
        while ext.len() < 2 {
          let Some((j, e)) = sl.s_kind(&mut cx, i, |k| matches!(k, Kind::Interface | Kind::Class)) else { break };
          if cx.decls[j].generic {
            let a = sl.s(&mut cx, i);
            ext.push(format!("{e}<{a}>"));
            cx.rec.shapes.insert("heritage-type-arguments");
          } else {
            ext.push(e);
          }
        }
        if !ext.is_empty() {
          s.push_str(&format!(" extends {}", ext.join(", ")));
        }
        s.push_str(" {\n");
        s.push_str(&format!("  a: {};\n", sl.s(&mut cx, i)));
        s.push_str(&format!("  b(x: {}): void;\n", sl.s(&mut cx, i)));
        if sh & 1 != 0 {
          s.push_str(&format!("  c?: {};\n", sl.s(&mut cx, i)));
        }
        if sh & 2 != 0 {
          s.push_str(&format!("  readonly d: {};\n", sl.s(&mut cx, i)));
        }
        if sh & 4 != 0 {
          let a = sl.s(&mut cx, i);
          let a2 = sl.s(&mut cx, i);
          s.push_str(&format!("  e(x: {a}): void;\n  e(x: {a2}, y: number): void;\n"));
          cx.rec.shapes.insert("method-overloads");
        }
        if sh & 8 != 0 {
          let a = sl.s(&mut cx, i);
          s.push_str(&format!("  (x: {a}): {a};\n"));
        }
        if sh & 16 != 0 {
          let a = sl.s(&mut cx, i);
          s.push_str(&format!("  new (x: {a}): object;\n"));
        }
        if sh & 32 != 0 {
          s.push_str(&format!("  [k: `x-${{string}}`]: {};\n", sl.s(&mut cx, i)));
        }
        if sh & 64 != 0 {
          let a = sl.s(&mut cx, i);
          s.push_str(&format!("  get g(): {a};\n  set g(v: {a});\n"));
        }
        s.push_str("}\n");
        s
      }
      Kind::Alias => match v % 8 {
        0 => format!("{EXP}type {name} = {} | {}[];\n", sl.s(&mut cx, i), sl.s(&mut cx, i)),
        1 => {
          generic = true;
          format!("{EXP}type {name}<T = {}> = {{ v: T; w: {} }};\n", sl.s(&mut cx, i), sl.s(&mut cx, i))
        }
        2 => format!("{EXP}type {name} = Record<string, {}>;\n", sl.s(&mut cx, i)),
        3 => {
          generic = true;
          cx.rec.shapes.insert("type-param-constraint-and-default");
          let c = sl.s(&mut cx, i);
          let dflt = sl.s(&mut cx, i);
          let a = sl.s(&mut cx, i);
          let b = sl.s(&mut cx, i);
          format!("{EXP}type {name}<T extends {c} = {dflt}> = T extends {a} ? {b} : never;\n")
        }
        4 => {
          let a = sl.s(&mut cx, i);
          let b = sl.s(&mut cx, i);
          format!("{EXP}type {name} = {{ [K in keyof {a}]: {b} }};\n")
        }
        5 => format!("{EXP}type {name} = [{}, {}?];\n", sl.s(&mut cx, i), sl.s(&mut cx, i)),
        6 => {
          let a = sl.s(&mut cx, i);
          let b = sl.s(&mut cx, i);
          let c = sl.s(&mut cx, i);
          format!("{EXP}type {name} = (a: {a}, ...r: {b}[]) => {c};\n")
        }
        _ => format!("{EXP}type {name} = {}[\"a\"] | `p-${{string}}`;\n", sl.s(&mut cx, i)),
      },
      Kind::Enum => match v % 3 {
        0 => format!("{EXP}enum {name} {{ A, B = 2, C }}\n"),
        1 => format!("{EXP}enum {name} {{ X = \"x\", Y = \"y\" }}\n"),
        _ => format!("{EXP}const enum {name} {{ P = 1, Q = P << 1 }}\n"),
      },
      Kind::Function => match r.explicitness {
        2 => {
          let a = sl.s(&mut cx, i);
          let b = sl.body(&mut cx, i);
          format!("{EXP}function {name}(a: {a}) {{{b} return Math.random() > 0.5 ? a : globalThis.name; }}\n")
        }
        1 => {
          let a = sl.s(&mut cx, i);
          let b = sl.body(&mut cx, i);
          format!("{EXP}function {name}(a: {a}, b = 1) {{{b} }}\n")
        }
        _ => {
          let mut s = match v % 6 {
            5 => {
              // a default value in a non-trailing position
              cx.rec.shapes.insert("non-trailing-default-parameter");
              let a = sl.s(&mut cx, i);
              let c = sl.s(&mut cx, i);
              let ret = sl.s(&mut cx, i);
              let b = sl.body(&mut cx, i);
              format!("{EXP}function {name}(a: {a} = null as any, b: string, c?: {c}): {ret} {{{b} void b; void c; return null as any; }}\n")
            }
            0 => {
              let a = sl.s(&mut cx, i);
              let ret = sl.s(&mut cx, i);
              let b = sl.body(&mut cx, i);
              format!("{EXP}function {name}(a: {a}, b: number = 1): {ret} {{{b} return null as any; }}\n")
            }
            1 => {
              generic = true;
              cx.rec.shapes.insert("type-param-constraint-and-default");
              let c = sl.s(&mut cx, i);
              let dflt = sl.s(&mut cx, i);
              let rest = sl.s(&mut cx, i);
              let ret = sl.s(&mut cx, i);
              let b = sl.body(&mut cx, i);
              format!(
                "{EXP}function {name}<T extends {c} = {dflt}>(a: T, ...rest: {rest}[]): {ret} {{{b} return null as any; }}\n"
              )
            }
            2 => {
              cx.rec.shapes.insert("function-overloads");
              let a = sl.s(&mut cx, i);
              let r1 = sl.s(&mut cx, i);
              let a2 = sl.s(&mut cx, i);
              let im = sl.i_or(&mut cx, i, "any");
              let b = sl.body(&mut cx, i);
              format!(
                "{EXP}function {name}(a: {a}): {r1};\n{EXP}function {name}(a: {a2}, b: string): {r1};\n{EXP}function {name}(a: {im} | any, b?: any): any {{{b} return null as any; }}\n"
              )
            }
            3 => {
              let a = sl.s(&mut cx, i);
              let c = sl.s(&mut cx, i);
              let b = sl.body(&mut cx, i);
              format!(
                "{EXP}function {name}({{ a, b }}: {{ a: {a}; b: number }}, [c]: [{c}]): void {{ void a; void b; void c;{b} }}\n"
              )
            }
            _ => {
              let a = sl.s(&mut cx, i);
              let ret = sl.s(&mut cx, i);
              let b = sl.body(&mut cx, i);
              format!("{EXP}async function {name}(a: {a}): Promise<{ret}> {{{b} return null as any; }}\n")
            }
          };
          if sh & 1 != 0 && v % 6 != 2 {
            // expando properties (become a namespace in the output)
            let a = sl.s(&mut cx, i);
            s.push_str(&format!("{name}.tag = \"x\";\n{name}.make = (a: {a}): {a} => a;\n"));
            cx.rec.shapes.insert("expando-properties");
          }
          s
        }
      },
      Kind::Var => match r.explicitness {
        2 => format!("{EXP}const {name} = globalThis.structuredClone({{ x: Math.random() }});\n"),
        1 => match v % 6 {
          0 => format!("{EXP}const {name} = 1;\n"),
          1 => format!("{EXP}const {name} = \"s\";\n"),
          2 => format!("{EXP}let {name} = true;\n"),
          3 => format!("{EXP}const {name} = -1;\n"),
          4 => format!("{EXP}const {name} = `t`;\n"),
          _ => format!("{EXP}const {name} = 10n;\n"),
        },
        3 => {
          cx.rec.shapes.insert("initialiser-of-unknown-standing");
          let init = match v % 12 {
            10 => "(v: unknown) => v as { k: number }[\"k\"]".to_string(),
            11 => match sl.s_kind(&mut cx, i, |k| k.is_value()) {
              Some((_, n)) => format!("(v: unknown) => v as typeof {n}"),
              None => "(v: unknown) => v as [number, string][0]".to_string(),
            },
            0 => "[Math.random(), 1]".to_string(),
            1 => "{ a: Math.random(), b: 1 }".to_string(),
            2 => "true ? 1 : Math.random()".to_string(),
            3 => "`t${Math.random()}`".to_string(),
            4 => "new Map<string, number>()".to_string(),
            5 => "[1, \"a\"]".to_string(),
            6 => "{ a: 1, b: [2, { c: \"x\" }] }".to_string(),
            7 => "{ f: (a: number): string => String(a), g(a: number): void { void a; } }".to_string(),
            8 => "[globalThis.name, 2] as const".to_string(),
            _ => "{ a: 1, b: \"x\" } as const".to_string(),
          };
          format!("{EXP}const {name} = {init};\n")
        }
        _ => match v % 4 {
          1 => {
            cx.rec.shapes.insert("annotated-arrow-function");
            let a = sl.s(&mut cx, i);
            let ret = sl.s(&mut cx, i);
            let b = sl.body(&mut cx, i);
            format!("{EXP}const {name} = (a: {a}, b: number = 1): {ret} => {{{b} void a; void b; return null as any; }};\n")
          }
          2 => format!("{EXP}let {name}: {} | undefined;\n", sl.s(&mut cx, i)),
          3 => {
            let a = sl.s(&mut cx, i);
            let ret = sl.s(&mut cx, i);
            let b = sl.body(&mut cx, i);
            format!("{EXP}const {name} = function (a: {a}): {ret} {{{b} void a; return null as any; }};\n")
          }
          _ => {
            let t = sl.s(&mut cx, i);
            let b = sl.body(&mut cx, i);
            let init = if b.is_empty() {
              "null as any".to_string()
            } else {
              format!("((): any => {{{b} return null; }})()")
            };
            format!("{EXP}const {name}: {t} = {init};\n")
          }
        },
      },
      Kind::Namespace => {
        let mut s = format!("{EXP}namespace {name} {{\n");
        s.push_str(&format!("  export interface In {{ a: {}; }}\n", sl.s(&mut cx, i)));
        member_refs = sl.sig.iter().filter(|x| x.1).map(|x| x.0).collect();
        s.push_str("  interface Hidden { h: number; }\n");
        s.push_str(&format!("  export const v: {} = null as any;\n", sl.s(&mut cx, i)));
        s.push_str("  export type Inner = In | Hidden;\n");
        if v % 3 == 1 {
          let a = sl.s(&mut cx, i);
          s.push_str(&format!("  export function f(a: {a}): {a} {{ return a; }}\n"));
        }
        if v % 3 == 2 {
          s.push_str(&format!("  export namespace Deep {{ export type T = {}; }}\n", sl.s(&mut cx, i)));
        }
        s.push_str("}\n");
        s
      }
    };
    // only the references that were written count
    cx.decls[i].sig_refs = sl.sig.iter().filter(|x| x.1).map(|x| x.0).collect();
    cx.decls[i].impl_refs = sl.imp.iter().filter(|x| x.1).map(|x| x.0).collect();
    cx.decls[i].generic = generic;
    cx.decls[i].member_refs = member_refs;
    if class_maybe {
      cx.decls[i].maybe_inferable = true;
    }
    let m = cx.decls[i].module;
    cx.outs[m].body.push_str(&format!("\u{2}{i}\u{2}{text}"));
    cx
      .rec
      .declared
      .entry(MODULE_PATHS[m].to_string())
      .or_default()
      .insert(name);
  }

  // anything referenced from another module must be exported by its module
  let mut must_export: BTreeSet<usize> = BTreeSet::new();
  for d in &cx.decls {
    for r in d.sig_refs.iter().chain(d.impl_refs.iter()) {
      if cx.decls[*r].module != d.module {
        must_export.insert(*r);
      }
    }
  }
  for i in must_export {
    cx.decls[i].exported = true;
  }
  // fill in the `export` keywords
  for m in 0..n_modules {
    let body = std::mem::take(&mut cx.outs[m].body);
    // chunks alternate: index, text
    let mut parts = body.split('\u{2}').skip(1);
    let mut text = String::new();
    while let (Some(i), Some(t)) = (parts.next(), parts.next()) {
      let i: usize = i.parse().unwrap();
      let kw = if cx.decls[i].exported { "export " } else { "" };
      text.push_str(&t.replace(EXP, kw));
    }
    cx.outs[m].body = text;
  }

  // ----- exports reachable per module (declaration indices)
  let own = |m: usize, decls: &Vec<Decl>| -> BTreeSet<usize> {
    decls.iter().enumerate().filter(|(_, d)| d.module == m && d.exported).map(|(i, _)| i).collect()
  };
  // names chosen for named re-exports: from what the target passes on
  let resolved_of = |decls: &Vec<Decl>, named_sel: &Vec<Vec<(usize, Vec<usize>)>>| -> Vec<BTreeSet<usize>> {
    let mut r: Vec<BTreeSet<usize>> = (0..n_modules).map(|m| own(m, decls)).collect();
    loop {
      let mut changed = false;
      for m in 0..n_modules {
        let mut add: BTreeSet<usize> = BTreeSet::new();
        for t in &star[m] {
          add.extend(r[*t].iter().copied());
        }
        for (_, sel) in &named_sel[m] {
          add.extend(sel.iter().copied());
        }
        for a in add {
          if r[m].insert(a) {
            changed = true;
          }
        }
      }
      if !changed {
        return r;
      }
    }
  };
  // first without named selections, to know what each target offers
  let mut named_sel: Vec<Vec<(usize, Vec<usize>)>> = vec![Vec::new(); n_modules];
  let offered = resolved_of(&cx.decls, &named_sel);
  let mut tails: Vec<String> = vec![String::new(); n_modules];
  let mut public_via_ns: BTreeSet<usize> = BTreeSet::new();
  // default exports of the inner modules
  let mut default_of: Vec<Option<usize>> = vec![None; n_modules];
  for (m, pickv) in &raw.inner_defaults {
    let m = (*m as usize) % n_modules;
    if m == 0 || default_of[m].is_some() {
      continue;
    }
    let cands: Vec<usize> = cx
      .decls
      .iter()
      .enumerate()
      .filter(|(_, d)| d.module == m && matches!(d.kind, Kind::Class | Kind::Function | Kind::Var | Kind::Enum))
      .map(|(i, _)| i)
      .collect();
    if cands.is_empty() {
      continue;
    }
    default_of[m] = Some(cands[idx(*pickv, cands.len())]);
  }
  for m in 0..n_modules {
    let mut already: BTreeSet<usize> = own(m, &cx.decls);
    if let Some(i) = default_of[m] {
      tails[m].push_str(&format!("export default {};\n", cx.decls[i].name));
    }
    for t in &star[m] {
      tails[m].push_str(&format!("export * from \"{}\";\n", rel(MODULE_PATHS[m], MODULE_PATHS[*t], false)));
      already.extend(offered[*t].iter().copied());
      cx.rec.shapes.insert(if m == 0 { "entry-star-re-export" } else { "inner-star-re-export" });
    }
    let mut ns_lines = String::new();
    for t in &ns[m] {
      ns_lines.push_str(&format!(
        "export * as ns{t} from \"{}\";\n",
        rel(MODULE_PATHS[m], MODULE_PATHS[*t], false)
      ));
    }
    if !raw.named_first {
      tails[m].push_str(&ns_lines);
    }
    for (t, s, pickv) in named[m].clone() {
      let cands: Vec<usize> = offered[t]
        .iter()
        .copied()
        .filter(|i| !already.contains(i))
        .filter(|i| if s == 3 { matches!(cx.decls[*i].kind, Kind::Interface | Kind::Alias) } else { true })
        .collect();
      if cands.is_empty() {
        continue;
      }
      // every other time: the names that come the longest way
      let mut cands = cands;
      if pickv % 2 == 1 {
        cands.sort_by_key(|i| std::cmp::Reverse(cx.star_dist[t][cx.decls[*i].module]));
      }
      let start = if pickv % 2 == 1 { 0 } else { idx(pickv, cands.len()) };
      let sel: Vec<usize> = cands.iter().cycle().skip(start).take(2.min(cands.len())).copied().collect();
      if sel.iter().any(|i| cx.star_dist[t][cx.decls[*i].module] >= 2) {
        cx.rec.shapes.insert("named-re-export-through-two-star-hops");
      }
      let list: Vec<String> = sel.iter().map(|i| cx.decls[*i].name.clone()).collect();
      let kw = if s == 3 { "export type" } else { "export" };
      tails[m].push_str(&format!(
        "{kw} {{ {} }} from \"{}\";\n",
        list.join(", "),
        rel(MODULE_PATHS[m], MODULE_PATHS[t], false)
      ));
      if sel.iter().any(|i| cx.decls[*i].module != t) {
        cx.rec.shapes.insert("named-re-export-through-star-chain");
      }
      already.extend(sel.iter().copied());
      named_sel[m].push((t, sel));
      // and the target's default export under a name
      if let Some(di) = default_of[t] {
        if pickv % 2 == 0 && !tails[m].contains(&format!(" Df{t} ")) {
          tails[m].push_str(&format!(
            "export {{ default as Df{t} }} from \"{}\";\n",
            rel(MODULE_PATHS[m], MODULE_PATHS[t], false)
          ));
          named_sel[m].push((t, vec![di]));
          cx.rec.shapes.insert("default-re-exported-by-name");
        }
      }
    }
    if raw.named_first {
      tails[m].push_str(&ns_lines);
    }
  }
  // a by-name re-export of a default needs the target to have named
  // re-exports at all; give the entry module one more chance
  for t in 1..n_modules {
    if let Some(di) = default_of[t] {
      if raw.named_first && !tails[0].contains(&format!(" Df{t} ")) && (ns[0].contains(&t) || star[0].contains(&t)) {
        let line = format!("export {{ default as Df{t} }} from \"{}\";\n", rel(MODULE_PATHS[0], MODULE_PATHS[t], false));
        // before the namespace / star lines of the entry module
        tails[0] = format!("{line}{}", tails[0]);
        named_sel[0].push((t, vec![di]));
        cx.rec.shapes.insert("default-re-exported-by-name");
      }
    }
  }
  let resolved = resolved_of(&cx.decls, &named_sel);

  // default export of an entry-module declaration
  let mut default_decl: Option<usize> = None;
  if let Some(di) = raw.default_export {
    let cands: Vec<usize> = cx
      .decls
      .iter()
      .enumerate()
      .filter(|(_, d)| d.module == 0 && matches!(d.kind, Kind::Class | Kind::Function | Kind::Var | Kind::Enum))
      .map(|(i, _)| i)
      .collect();
    if !cands.is_empty() {
      let i = cands[idx(di, cands.len())];
      if di % 2 == 0 {
        tails[0].push_str(&format!("export {{ {} as default }};\n", cx.decls[i].name));
      } else {
        tails[0].push_str(&format!("export default {};\n", cx.decls[i].name));
      }
      default_decl = Some(i);
    }
  }

  // ----- assemble files
  let mut files = BTreeMap::new();
  for (m, o) in cx.outs.iter().enumerate() {
    let mut text = String::new();
    for ((to, style, nc), names) in &o.imports {
      let kw = if *style == 1 { "import type" } else { "import" };
      let names: Vec<String> = names.iter().cloned().collect();
      text.push_str(&format!(
        "{kw} {{ {} }} from \"{}\";\n",
        names.join(", "),
        rel(MODULE_PATHS[m], MODULE_PATHS[*to], *nc)
      ));
    }
    for to in &o.ns_imports {
      text.push_str(&format!("import * as m{to} from \"{}\";\n", rel(MODULE_PATHS[m], MODULE_PATHS[*to], false)));
    }
    text.push_str(&o.body);
    text.push_str(&tails[m]);
    if text.is_empty() {
      text.push_str("export {};\n");
    }
    files.insert(MODULE_PATHS[m].to_string(), text);
  }

  // ----- the record
  let mut rec = std::mem::take(&mut cx.rec);
  let decls = cx.decls;
  let mut exports = vec![(".".to_string(), "./mod.ts".to_string())];
  let mut entry_modules = vec![0usize];
  if raw.second_entry && n_modules >= 3 {
    exports.push(("./b".to_string(), format!(".{}", MODULE_PATHS[2])));
    entry_modules.push(2);
  }
  rec.entrypoints = entry_modules.iter().map(|m| MODULE_PATHS[*m].to_string()).collect();
  for m in 0..n_modules {
    let mut names: BTreeSet<String> = own(m, &decls).iter().map(|i| decls[*i].name.clone()).collect();
    for (_, sel) in &named_sel[m] {
      names.extend(sel.iter().map(|i| decls[*i].name.clone()));
    }
    for t in &ns[m] {
      names.insert(format!("ns{t}"));
    }
    if (m == 0 && default_decl.is_some()) || default_of[m].is_some() {
      names.insert("default".to_string());
    }
    rec.exports.insert(MODULE_PATHS[m].to_string(), names);
    rec.star_exports.insert(
      MODULE_PATHS[m].to_string(),
      star[m].iter().map(|t| rel(MODULE_PATHS[m], MODULE_PATHS[*t], false)).collect(),
    );
  }
  // public roots: everything an entrypoint passes on (own, named, star),
  // everything behind a namespace re-export that is itself public, and the
  // default export
  let mut work: Vec<usize> = Vec::new();
  // modules whose whole resolved export set is public
  let mut public_modules: BTreeSet<usize> = entry_modules.iter().copied().collect();
  loop {
    let mut changed = false;
    for m in public_modules.clone() {
      // `export * as ns from t` in a public module makes t public; so does `export *`
      for t in ns[m].iter().chain(star[m].iter()) {
        if public_modules.insert(*t) {
          changed = true;
        }
      }
    }
    if !changed {
      break;
    }
  }
  for m in &public_modules {
    // star / ns targets pass on everything; entry modules too. A module that
    // is public only as a star / ns target exposes its resolved exports.
    work.extend(resolved[*m].iter().copied());
    public_via_ns.extend(resolved[*m].iter().copied());
  }
  if let Some(i) = default_decl {
    work.push(i);
  }
  // defaults: of entrypoints, and of namespace re-export targets of public
  // modules (`ns.default`); `export *` does not pass a default on
  for e in &entry_modules {
    if let Some(i) = default_of[*e] {
      work.push(i);
    }
  }
  // whether `export * as ns from "./t"` makes the default export of `t`
  // public (`ns.default`) is left open: fast check traces a namespace
  // re-export without the default; declarations that are public only that
  // way may or may not be retained
  let mut ns_defaults: Vec<usize> = Vec::new();
  for m in &public_modules {
    for t in &ns[*m] {
      if let Some(i) = default_of[*t] {
        ns_defaults.push(i);
      }
    }
  }
  // (declaration, whole?) - a namespace reached through `N.In` only is
  // retained in part: just what `In` refers to becomes public with it
  let mut retained: BTreeSet<usize> = BTreeSet::new();
  let mut whole: BTreeSet<usize> = BTreeSet::new();
  let mut depth: BTreeMap<usize, usize> = BTreeMap::new();
  let mut work: Vec<(usize, bool)> = work.into_iter().map(|w| (w, true)).collect();
  for (w, _) in &work {
    depth.insert(*w, 0);
  }
  while let Some((i, all)) = work.pop() {
    let first = retained.insert(i);
    let upgrade = all && whole.insert(i);
    if !first && !upgrade {
      continue;
    }
    let dep = depth.get(&i).copied().unwrap_or(0);
    let refs: &Vec<usize> = if all { &decls[i].sig_refs } else { &decls[i].member_refs };
    for j in refs {
      let e = depth.entry(*j).or_insert(dep + 1);
      *e = (*e).max(dep + 1);
      rec.max_chain = rec.max_chain.max(dep + 1);
      // a reference to a namespace is the qualified name of its member
      work.push((*j, decls[*j].kind != Kind::Namespace));
    }
  }
  // the same closure once more from the namespace defaults: what only they
  // reach is neither demanded nor forbidden
  {
    let mut seen: BTreeSet<usize> = retained.clone();
    let mut work: Vec<(usize, bool)> = ns_defaults.iter().map(|i| (*i, true)).collect();
    while let Some((i, all)) = work.pop() {
      if !seen.insert(i) {
        continue;
      }
      let d = &decls[i];
      rec.maybe_retained.insert((MODULE_PATHS[d.module].to_string(), d.name.clone()));
      if d.non_inferable || d.maybe_inferable {
        rec.maybe_diagnostic = true;
      }
      let refs: &Vec<usize> = if all { &d.sig_refs } else { &d.member_refs };
      for j in refs {
        work.push((*j, decls[*j].kind != Kind::Namespace));
      }
    }
  }
  for i in &retained {
    let d = &decls[*i];
    rec.retained.insert((MODULE_PATHS[d.module].to_string(), d.name.clone()));
    if d.kind == Kind::Namespace && !whole.contains(i) {
      rec.shapes.insert("namespace-retained-in-part");
    }
    if d.kind == Kind::Namespace && whole.contains(i) {
      rec.whole_namespaces.insert((MODULE_PATHS[d.module].to_string(), d.name.clone()));
    }
    if d.non_inferable {
      rec.expects_diagnostic = true;
    }
    if d.maybe_inferable {
      rec.maybe_diagnostic = true;
    }
  }
  for (i, d) in decls.iter().enumerate() {
    if retained.contains(&i) {
      for j in &d.impl_refs {
        // referenced from an implementation position only: must be dropped
        if !retained.contains(j) {
          rec.has_impl_only_private = true;
        }
      }
      let followed = if whole.contains(&i) { &d.sig_refs } else { &d.member_refs };
      for j in followed {
        // kept only because a signature names it
        if !public_via_ns.contains(j) {
          rec.has_sig_private = true;
        }
      }
    }
  }
  Package {
    files,
    exports,
    rec,
    decls,
  }
}
