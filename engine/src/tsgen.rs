//! Generator of multi-module TypeScript packages with a *recorded* intended
//! public API: which names each module exports, which declarations are
//! reachable from the entrypoints through signature positions only (the
//! expected retained set) and whether a public declaration is deliberately
//! non-inferable (a diagnostic must be produced).

use crate::runner::idx;
use proptest::prelude::*;
use serde::{Deserialize, Serialize};
use std::collections::{BTreeMap, BTreeSet};

#[derive(Clone, Copy, Debug, Serialize, Deserialize, PartialEq, Eq)]
pub enum Kind {
  Class,
  Interface,
  Alias,
  Enum,
  Function,
  Var,
  Namespace,
}

impl Kind {
  pub fn is_type(self) -> bool {
    matches!(self, Kind::Class | Kind::Interface | Kind::Alias | Kind::Enum)
  }
  pub fn is_value(self) -> bool {
    matches!(self, Kind::Class | Kind::Enum | Kind::Function | Kind::Var)
  }
}

#[derive(Clone, Debug, Serialize, Deserialize)]
pub struct RawDecl {
  pub kind: u8,
  pub module: u8,
  pub exported: bool,
  /// references placed in signature positions (indices into earlier decls)
  pub sig_refs: Vec<u16>,
  /// references placed in implementation positions only
  pub impl_refs: Vec<u16>,
  /// 0 fully annotated, 1 trivially inferable, 2 non-inferable
  pub explicitness: u8,
  /// how cross-module references are written: 0 named import, 1 `import
  /// type`, 2 namespace import + qualified name, 3 `import("...")` type
  pub import_style: u8,
  pub variant: u8,
}

#[derive(Clone, Debug, Serialize, Deserialize)]
pub struct RawPackage {
  pub decls: Vec<RawDecl>,
  pub n_modules: u8,
  /// re-exports written in the entry module: (module, style) style 0 named,
  /// 1 star, 2 `* as ns`, 3 `export type`
  pub reexports: Vec<(u8, u8)>,
  /// second entrypoint (`./b`) exported by the package
  pub second_entry: bool,
  pub default_export: Option<u16>,
}

pub fn raw_package(max_decls: usize) -> impl Strategy<Value = RawPackage> {
  let decl = (
    0..7u8,
    0..4u8,
    proptest::bool::weighted(0.45),
    proptest::collection::vec(any::<u16>(), 0..=2),
    proptest::collection::vec(any::<u16>(), 0..=3),
    prop_oneof![6 => Just(0u8), 3 => Just(1u8), 1 => Just(2u8)],
    0..4u8,
    0..4u8,
  )
    .prop_map(
      |(kind, module, exported, sig_refs, impl_refs, explicitness, import_style, variant)| RawDecl {
        kind,
        module,
        exported,
        sig_refs,
        impl_refs,
        explicitness,
        import_style,
        variant,
      },
    );
  (
    proptest::collection::vec(decl, 1..=max_decls),
    1..=4u8,
    proptest::collection::vec((0..4u8, 0..4u8), 0..=3),
    proptest::bool::weighted(0.3),
    proptest::option::weighted(0.2, any::<u16>()),
  )
    .prop_map(|(decls, n_modules, reexports, second_entry, default_export)| RawPackage {
      decls,
      n_modules,
      reexports,
      second_entry,
      default_export,
    })
}

pub const MODULE_PATHS: &[&str] = &["/mod.ts", "/a.ts", "/b.ts", "/c.ts"];

#[derive(Clone, Debug)]
pub struct Decl {
  pub name: String,
  pub kind: Kind,
  pub module: usize,
  /// exported from its module with `export`
  pub exported: bool,
  pub sig_refs: Vec<usize>,
  pub impl_refs: Vec<usize>,
  pub non_inferable: bool,
}

#[derive(Clone, Debug, Default)]
pub struct Recorded {
  /// module path -> names the module exports (own declarations, re-exports by
  /// name, `default`, `* as ns`) — star re-exports listed separately
  pub exports: BTreeMap<String, BTreeSet<String>>,
  /// module path -> specifiers of `export * from`
  pub star_exports: BTreeMap<String, Vec<String>>,
  /// (module path, declaration name) expected to survive
  pub retained: BTreeSet<(String, String)>,
  /// all module-level declaration names per module
  pub declared: BTreeMap<String, BTreeSet<String>>,
  /// a retained declaration is deliberately non-inferable
  pub expects_diagnostic: bool,
  pub entrypoints: Vec<String>,
  pub has_impl_only_private: bool,
  pub has_sig_private: bool,
  pub cross_module_refs: usize,
  pub max_chain: usize,
}

#[derive(Clone, Debug)]
pub struct Package {
  /// path -> source text
  pub files: BTreeMap<String, String>,
  /// exports map of the version manifest
  pub exports: Vec<(String, String)>,
  pub rec: Recorded,
  pub decls: Vec<Decl>,
}

fn kind_of(k: u8) -> Kind {
  match k % 7 {
    0 => Kind::Class,
    1 => Kind::Interface,
    2 => Kind::Alias,
    3 => Kind::Enum,
    4 => Kind::Function,
    5 => Kind::Var,
    _ => Kind::Namespace,
  }
}

struct ModuleOut {
  imports: BTreeMap<(usize, u8), BTreeSet<String>>, // (module, style) -> names
  ns_imports: BTreeSet<usize>,
  body: String,
}

pub fn build(raw: &RawPackage) -> Package {
  let n_modules = raw.n_modules.clamp(1, 4) as usize;
  // resolve declarations; references only go to earlier declarations, which
  // keeps the reference graph acyclic (cycles come from re-exports)
  let mut decls: Vec<Decl> = Vec::new();
  for (i, r) in raw.decls.iter().enumerate() {
    let kind = kind_of(r.kind);
    let module = (r.module as usize) % n_modules;
    let pick = |refs: &Vec<u16>, want_type: bool, decls: &Vec<Decl>| -> Vec<usize> {
      let mut out = Vec::new();
      if decls.is_empty() {
        return out;
      }
      for r in refs {
        let j = idx(*r, decls.len());
        let t = &decls[j];
        // namespaces are not referenced (keeps qualified names out of scope)
        if t.kind == Kind::Namespace {
          continue;
        }
        if want_type && !(t.kind.is_type() || t.kind.is_value()) {
          continue;
        }
        if !out.contains(&j) {
          out.push(j);
        }
      }
      out
    };
    let sig_refs = if matches!(kind, Kind::Enum) {
      vec![]
    } else {
      pick(&r.sig_refs, true, &decls)
    };
    let impl_refs = if matches!(kind, Kind::Function | Kind::Var | Kind::Class) {
      pick(&r.impl_refs, true, &decls)
    } else {
      vec![]
    };
    // keep only the references the rendering below really writes
    let mut sig_refs = sig_refs;
    let mut impl_refs = impl_refs;
    let one = match kind {
      Kind::Function => r.explicitness != 0,
      Kind::Var => true,
      Kind::Alias => r.variant % 3 == 2,
      _ => false,
    };
    if one {
      sig_refs.truncate(1);
    }
    if kind == Kind::Var && r.explicitness != 0 {
      sig_refs.clear();
      impl_refs.clear();
    }
    let non_inferable =
      r.explicitness == 2 && matches!(kind, Kind::Function | Kind::Var);
    decls.push(Decl {
      name: format!("D{i}"),
      kind,
      module,
      exported: r.exported,
      sig_refs,
      impl_refs,
      non_inferable,
    });
  }
  // anything referenced from another module must be exported by its module
  let mut must_export: BTreeSet<usize> = BTreeSet::new();
  for d in &decls {
    for r in d.sig_refs.iter().chain(d.impl_refs.iter()) {
      if decls[*r].module != d.module {
        must_export.insert(*r);
      }
    }
  }
  for i in must_export {
    decls[i].exported = true;
  }

  let mut outs: Vec<ModuleOut> = (0..n_modules)
    .map(|_| ModuleOut {
      imports: BTreeMap::new(),
      ns_imports: BTreeSet::new(),
      body: String::new(),
    })
    .collect();
  let mut rec = Recorded::default();

  // text of a reference to declaration `j` from declaration `i`
  let mut ref_text = |i: usize, j: usize, type_pos: bool, raw: &RawPackage, outs: &mut Vec<ModuleOut>, rec: &mut Recorded| -> String {
    let from = decls[i].module;
    let to = decls[j].module;
    let name = decls[j].name.clone();
    let typeof_needed = type_pos && !decls[j].kind.is_type();
    let base = if from == to {
      name.clone()
    } else {
      rec.cross_module_refs += 1;
      let style = raw.decls[i].import_style % 4;
      match style {
        2 => {
          outs[from].ns_imports.insert(to);
          format!("m{to}.{name}")
        }
        3 if type_pos && !typeof_needed => {
          format!("import(\".{}\").{name}", MODULE_PATHS[to])
        }
        1 if type_pos && decls[j].kind.is_type() && !matches!(decls[j].kind, Kind::Class | Kind::Enum) => {
          outs[from].imports.entry((to, 1)).or_default().insert(name.clone());
          name.clone()
        }
        _ => {
          outs[from].imports.entry((to, 0)).or_default().insert(name.clone());
          name.clone()
        }
      }
    };
    if typeof_needed {
      format!("typeof {base}")
    } else {
      base
    }
  };

  for i in 0..decls.len() {
    let d = decls[i].clone();
    let r = &raw.decls[i];
    let exp = if d.exported { "export " } else { "" };
    let sig: Vec<String> = d
      .sig_refs
      .iter()
      .map(|j| ref_text(i, *j, true, raw, &mut outs, &mut rec))
      .collect();
    let imp: Vec<String> = d
      .impl_refs
      .iter()
      .map(|j| ref_text(i, *j, true, raw, &mut outs, &mut rec))
      .collect();
    let body_impl = if imp.is_empty() {
      String::new()
    } else {
      let mut s = String::new();
      for (k, t) in imp.iter().enumerate() {
        s.push_str(&format!(" const t{k}: {t} = null as any; void t{k};"));
      }
      s
    };
    let ty = |k: usize| -> String {
      sig.get(k).cloned().unwrap_or_else(|| ["number", "string", "boolean"][k % 3].to_string())
    };
    let name = &d.name;
    let text = match d.kind {
      Kind::Class => {
        // heritage: only a class declared earlier in the same package
        let ext = d
          .sig_refs
          .iter()
          .enumerate()
          .find(|(_, j)| decls[**j].kind == Kind::Class)
          .map(|(k, _)| sig[k].trim_start_matches("typeof ").to_string());
        let mut s = format!("{exp}class {name}");
        if r.variant % 2 == 1 {
          s.push_str("<T = unknown>");
        }
        if let Some(e) = &ext {
          s.push_str(&format!(" extends {e}"));
        }
        s.push_str(" {\n");
        s.push_str(&format!("  p0: {};\n", ty(0)));
        s.push_str(&format!("  static s0: {} = null as any;\n", ty(1)));
        s.push_str("  private q0: number = 0;\n");
        s.push_str("  #h0 = 1;\n");
        if ext.is_some() {
          s.push_str("  constructor(x: number) { super(x); this.#h0 = x; }\n");
        } else {
          s.push_str(&format!("  constructor(x: number) {{ this.#h0 = x;{body_impl} }}\n"));
        }
        s.push_str(&format!("  m0(a: {}, b?: number): {} {{{body_impl} return null as any; }}\n", ty(0), ty(1)));
        s.push_str("  get g0(): number { return this.#h0; }\n");
        s.push_str("  private pm(): void {}\n");
        match r.explicitness {
          1 => s.push_str("  inferred = 1;\n  v0() {}\n"),
          _ => {}
        }
        s.push_str("}\n");
        s
      }
      Kind::Interface => {
        let ext: Vec<String> = d
          .sig_refs
          .iter()
          .enumerate()
          .filter(|(_, j)| matches!(decls[**j].kind, Kind::Interface | Kind::Class))
          .map(|(k, _)| sig[k].clone())
          .filter(|t| !t.starts_with("import("))
          .collect();
        let mut s = format!("{exp}interface {name}");
        if !ext.is_empty() {
          s.push_str(&format!(" extends {}", ext.join(", ")));
        }
        s.push_str(&format!(" {{\n  a: {};\n  b(x: {}): void;\n}}\n", ty(0), ty(1)));
        s
      }
      Kind::Alias => match r.variant % 3 {
        0 => format!("{exp}type {name} = {} | {}[];\n", ty(0), ty(1)),
        1 => format!("{exp}type {name}<T = {}> = {{ v: T; w: {} }};\n", ty(0), ty(1)),
        _ => format!("{exp}type {name} = Record<string, {}>;\n", ty(0)),
      },
      Kind::Enum => match r.variant % 2 {
        0 => format!("{exp}enum {name} {{ A, B = 2, C }}\n"),
        _ => format!("{exp}enum {name} {{ X = \"x\", Y = \"y\" }}\n"),
      },
      Kind::Function => match r.explicitness {
        2 => format!("{exp}function {name}(a: {}) {{{body_impl} return Math.random() > 0.5 ? a : globalThis.name; }}\n", ty(0)),
        1 => format!("{exp}function {name}(a: {}, b = 1) {{{body_impl} }}\n", ty(0)),
        _ => format!("{exp}function {name}(a: {}, b: number = 1): {} {{{body_impl} return null as any; }}\n", ty(0), ty(1)),
      },
      Kind::Var => match r.explicitness {
        2 => format!("{exp}const {name} = globalThis.structuredClone({{ x: Math.random() }});\n"),
        1 => match r.variant % 3 {
          0 => format!("{exp}const {name} = 1;\n"),
          1 => format!("{exp}const {name} = \"s\";\n"),
          _ => format!("{exp}let {name} = true;\n"),
        },
        _ => {
          let init = if imp.is_empty() {
            "null as any".to_string()
          } else {
            format!("((): any => {{{body_impl} return null; }})()")
          };
          format!("{exp}const {name}: {} = {init};\n", ty(0))
        }
      },
      Kind::Namespace => {
        let mut s = format!("{exp}namespace {name} {{\n");
        s.push_str(&format!("  export interface In {{ a: {}; }}\n", ty(0)));
        s.push_str("  interface Hidden { h: number; }\n");
        s.push_str(&format!("  export const v: {} = null as any;\n", ty(1)));
        s.push_str("  export type Inner = In | Hidden;\n");
        s.push_str("}\n");
        s
      }
    };
    outs[d.module].body.push_str(&text);
    rec
      .declared
      .entry(MODULE_PATHS[d.module].to_string())
      .or_default()
      .insert(d.name.clone());
  }

  // entry module re-exports
  let mut entry_tail = String::new();
  let mut entry_named: BTreeSet<String> = BTreeSet::new();
  let mut entry_star: Vec<usize> = Vec::new();
  let mut entry_reexported: Vec<(usize, String)> = Vec::new(); // (module, name) reachable by name
  let mut ns_exports: Vec<usize> = Vec::new();
  let mut used_styles: BTreeSet<(usize, u8)> = BTreeSet::new();
  for (m, style) in &raw.reexports {
    let m = (*m as usize) % n_modules;
    if m == 0 || !used_styles.insert((m, *style % 4)) {
      continue;
    }
    let exported_there: Vec<&Decl> = decls.iter().filter(|d| d.module == m && d.exported).collect();
    match style % 4 {
      1 => {
        if !entry_star.contains(&m) {
          entry_tail.push_str(&format!("export * from \".{}\";\n", MODULE_PATHS[m]));
          entry_star.push(m);
        }
      }
      2 => {
        if !ns_exports.contains(&m) {
          entry_tail.push_str(&format!("export * as ns{m} from \".{}\";\n", MODULE_PATHS[m]));
          ns_exports.push(m);
          entry_named.insert(format!("ns{m}"));
        }
      }
      s => {
        // named re-export of up to two exported declarations of that module
        let names: Vec<&Decl> = exported_there
          .iter()
          .filter(|d| !entry_named.contains(&d.name))
          .filter(|d| if s == 3 { matches!(d.kind, Kind::Interface | Kind::Alias) } else { true })
          .take(2)
          .cloned()
          .collect();
        if !names.is_empty() {
          let list: Vec<String> = names.iter().map(|d| d.name.clone()).collect();
          let kw = if s == 3 { "export type" } else { "export" };
          entry_tail.push_str(&format!("{kw} {{ {} }} from \".{}\";\n", list.join(", "), MODULE_PATHS[m]));
          for d in names {
            entry_named.insert(d.name.clone());
            entry_reexported.push((m, d.name.clone()));
          }
        }
      }
    }
  }
  // default export of an entry-module declaration
  let mut default_name: Option<String> = None;
  if let Some(di) = raw.default_export {
    let cands: Vec<&Decl> = decls
      .iter()
      .filter(|d| d.module == 0 && matches!(d.kind, Kind::Class | Kind::Function | Kind::Var | Kind::Enum))
      .collect();
    if !cands.is_empty() {
      let d = cands[idx(di, cands.len())];
      entry_tail.push_str(&format!("export {{ {} as default }};\n", d.name));
      default_name = Some(d.name.clone());
    }
  }
  outs[0].body.push_str(&entry_tail);

  // assemble files
  let mut files = BTreeMap::new();
  for (m, o) in outs.iter().enumerate() {
    let mut text = String::new();
    for ((to, style), names) in &o.imports {
      let kw = if *style == 1 { "import type" } else { "import" };
      let names: Vec<String> = names.iter().cloned().collect();
      text.push_str(&format!("{kw} {{ {} }} from \".{}\";\n", names.join(", "), MODULE_PATHS[*to]));
    }
    for to in &o.ns_imports {
      text.push_str(&format!("import * as m{to} from \".{}\";\n", MODULE_PATHS[*to]));
    }
    text.push_str(&o.body);
    if text.is_empty() {
      text.push_str("export {};\n");
    }
    files.insert(MODULE_PATHS[m].to_string(), text);
  }

  // ----- the record
  let mut exports = vec![(".".to_string(), "./mod.ts".to_string())];
  let mut entry_modules = vec![0usize];
  if raw.second_entry && n_modules >= 3 {
    exports.push(("./b".to_string(), "./b.ts".to_string()));
    entry_modules.push(2);
  }
  rec.entrypoints = entry_modules.iter().map(|m| MODULE_PATHS[*m].to_string()).collect();
  for m in 0..n_modules {
    let mut names: BTreeSet<String> = decls
      .iter()
      .filter(|d| d.module == m && d.exported)
      .map(|d| d.name.clone())
      .collect();
    if m == 0 {
      names.extend(entry_named.iter().cloned());
      if default_name.is_some() {
        names.insert("default".to_string());
      }
      rec.star_exports.insert(
        MODULE_PATHS[0].to_string(),
        entry_star.iter().map(|s| format!(".{}", MODULE_PATHS[*s])).collect(),
      );
    }
    rec.exports.insert(MODULE_PATHS[m].to_string(), names);
  }
  // public roots: exported declarations of entry modules + re-exported ones
  let mut work: Vec<usize> = Vec::new();
  for d in decls.iter().enumerate() {
    let (i, d) = d;
    if entry_modules.contains(&d.module) && d.exported {
      work.push(i);
    }
    if Some(&d.name) == default_name.as_ref() && d.module == 0 {
      work.push(i);
    }
  }
  for (m, name) in &entry_reexported {
    if let Some(i) = decls.iter().position(|d| d.module == *m && &d.name == name) {
      work.push(i);
    }
  }
  for m in entry_star.iter().chain(ns_exports.iter()) {
    for (i, d) in decls.iter().enumerate() {
      if d.module == *m && d.exported {
        work.push(i);
      }
    }
  }
  let mut retained: BTreeSet<usize> = BTreeSet::new();
  let mut depth: BTreeMap<usize, usize> = BTreeMap::new();
  for w in &work {
    depth.insert(*w, 0);
  }
  while let Some(i) = work.pop() {
    if !retained.insert(i) {
      continue;
    }
    let dep = depth.get(&i).copied().unwrap_or(0);
    for j in &decls[i].sig_refs {
      let e = depth.entry(*j).or_insert(dep + 1);
      *e = (*e).max(dep + 1);
      rec.max_chain = rec.max_chain.max(dep + 1);
      work.push(*j);
    }
  }
  for i in &retained {
    let d = &decls[*i];
    rec.retained.insert((MODULE_PATHS[d.module].to_string(), d.name.clone()));
    if d.non_inferable {
      rec.expects_diagnostic = true;
    }
  }
  for (i, d) in decls.iter().enumerate() {
    if retained.contains(&i) {
      for j in &d.impl_refs {
        // referenced from an implementation position only: must be dropped
        if !retained.contains(j) {
          rec.has_impl_only_private = true;
        }
      }
      for j in &d.sig_refs {
        // kept only because a signature names it (its own module does not
        // export it, or it is not an entrypoint export)
        if !decls[*j].exported || !entry_modules.contains(&decls[*j].module) {
          rec.has_sig_private = true;
        }
      }
    }
  }
  Package {
    files,
    exports,
    rec,
    decls,
  }
}
