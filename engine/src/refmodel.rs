//! Reference semantics for "what a module's source declares" (C01, C02):
//! from the *structured* items of a module (never its rendered text) to the
//! dependency map the graph must record. Written from DESIGN.md Appendix A.2.

use crate::world::{Item, Opts, RESOLVER_TABLE};
use deno_graph::{GraphKind, MediaType, ModuleSpecifier};
use indexmap::IndexMap;

#[derive(Clone, Debug, PartialEq, Eq)]
pub enum Res {
  None,
  Ok(String),
  Err,
}

impl Res {
  pub fn ok(&self) -> Option<&str> {
    match self {
      Res::Ok(s) => Some(s),
      _ => None,
    }
  }
}

#[derive(Clone, Debug, Default, PartialEq, Eq)]
pub struct ExpDep {
  pub code: Option<Res>,
  pub ty: Option<Res>,
  pub is_dynamic: bool,
  pub attr: Option<String>,
  /// import kinds, in source order
  pub kinds: Vec<&'static str>,
  /// per import: carries an asset attribute or is source phase
  pub asset_flags: Vec<bool>,
  pub has_source_phase: bool,
}

impl ExpDep {
  pub fn code(&self) -> Res {
    self.code.clone().unwrap_or(Res::None)
  }
  pub fn ty(&self) -> Res {
    self.ty.clone().unwrap_or(Res::None)
  }
  /// the build requests the code target as an asset (no content analysis)
  pub fn all_asset(&self) -> bool {
    self.asset_flags.iter().all(|b| *b)
  }
}

#[derive(Clone, Debug, Default)]
pub struct ExpModule {
  pub deps: IndexMap<String, ExpDep>,
  /// (specifier text, resolution)
  pub types_dep: Option<(String, Res)>,
  pub source_map: Option<(String, Res)>,
}

/// A.1 — resolution of a specifier text against a referrer.
pub fn resolve(text: &str, referrer: &ModuleSpecifier, opts: &Opts) -> Res {
  if opts.resolver >= 1 {
    for (bare, to) in RESOLVER_TABLE {
      if text == *bare {
        return Res::Ok(to.to_string());
      }
    }
  }
  match deno_graph::resolve_import(text, referrer) {
    Ok(u) => Res::Ok(u.to_string()),
    Err(_) => Res::Err,
  }
}

fn is_js_family(mt: MediaType) -> bool {
  matches!(
    mt,
    MediaType::JavaScript | MediaType::Jsx | MediaType::Mjs | MediaType::Cjs
  )
}

struct Imp<'a> {
  spec: &'a str,
  kind: &'static str,
  is_dynamic: bool,
  attr: Option<&'a str>,
  types: Option<&'a str>,
  side_effect: bool,
  /// type-only form (TsType / module augmentation)
  type_only: bool,
}

pub fn expected_module(
  specifier: &ModuleSpecifier,
  mt: MediaType,
  items: &[Item],
  x_typescript_types: Option<&str>,
  opts: &Opts,
) -> ExpModule {
  let kind = opts.graph_kind();
  let include_types = kind.include_types();
  let mut m = ExpModule::default();
  let r = |t: &str| resolve(t, specifier, opts);

  // source map
  for it in items {
    if let Item::SourceMapUrl { spec } = it {
      m.source_map = Some((spec.clone(), r(spec)));
    }
  }
  if include_types {
    // @ts-self-types (untyped modules only)
    if !mt.is_typed() {
      if let Some(Item::SelfTypes { spec }) =
        items.iter().find(|i| matches!(i, Item::SelfTypes { .. }))
      {
        m.types_dep = Some((spec.clone(), r(spec)));
      }
    }
    // triple slash references, in source order
    for it in items {
      match it {
        Item::RefPath { spec } => {
          let d = m.deps.entry(spec.clone()).or_default();
          if d.ty.is_none() {
            d.ty = Some(r(spec));
          }
          d.kinds.push("tsReferencePath");
          d.asset_flags.push(false);
        }
        Item::RefTypes { spec } => {
          if !mt.is_typed() {
            if m.types_dep.is_none() {
              m.types_dep = Some((spec.clone(), r(spec)));
            }
          } else {
            let d = m.deps.entry(spec.clone()).or_default();
            if d.ty.is_none() {
              d.ty = Some(r(spec));
            }
            d.kinds.push("tsReferenceTypes");
            d.asset_flags.push(false);
          }
        }
        _ => {}
      }
    }
  }
  // JSX import source
  if mt.is_jsx() {
    let pragma = items.iter().find_map(|i| match i {
      Item::JsxImportSource { spec } => Some(spec.clone()),
      _ => None,
    });
    let has_pragma = pragma.is_some();
    let source = pragma.or_else(|| (opts.resolver >= 2).then(|| "react".to_string()));
    if let Some(src) = source {
      let text = format!("{src}/jsx-runtime");
      let code = r(&text);
      let d = m.deps.entry(text.clone()).or_default();
      if d.code.is_none() {
        d.code = Some(code);
      }
      if include_types && d.ty.is_none() {
        let mut types = items.iter().find_map(|i| match i {
          Item::JsxImportSourceTypes { spec } => Some(spec.clone()),
          _ => None,
        });
        if types.is_none() && !has_pragma && opts.resolver >= 2 {
          types = Some("types-react".to_string());
        }
        if let Some(t) = types {
          d.ty = Some(resolve(&format!("{t}/jsx-runtime"), specifier, opts));
        } else {
          let tr = resolve(&text, specifier, opts);
          if tr.ok() != d.code().ok() {
            d.ty = Some(tr);
          }
        }
      }
      d.kinds.push("jsxImportSource");
      d.asset_flags.push(false);
    }
  }
  // JSDoc imports (JS family only)
  if include_types && is_js_family(mt) {
    for it in items {
      if let Item::JsDocImport { spec } = it {
        let d = m.deps.entry(spec.clone()).or_default();
        if d.ty.is_none() {
          d.ty = Some(r(spec));
        }
        d.kinds.push("jsDoc");
        d.asset_flags.push(false);
      }
    }
  }
  // x-typescript-types, then resolve_types
  if include_types && m.types_dep.is_none() {
    if let Some(h) = x_typescript_types {
      m.types_dep = Some((h.to_string(), r(h)));
    }
  }
  if opts.resolver >= 2
    && include_types
    && m.types_dep.is_none()
    && !mt.is_typed()
    && specifier.as_str() == "file:///c.js"
  {
    m.types_dep = Some((
      specifier.to_string(),
      Res::Ok("file:///f.d.ts".to_string()),
    ));
  }

  // ES dependencies, in source order
  let mut imps: Vec<Imp> = Vec::new();
  for it in items {
    match it {
      Item::Import { spec, attr, types } => imps.push(Imp {
        spec,
        kind: "es",
        is_dynamic: false,
        attr: attr.as_deref(),
        types: types.as_deref(),
        side_effect: false,
        type_only: false,
      }),
      Item::SideEffect { spec, attr } => imps.push(Imp {
        spec,
        kind: "es",
        is_dynamic: false,
        attr: attr.as_deref(),
        types: None,
        side_effect: true,
        type_only: false,
      }),
      Item::ExportFrom { spec }
      | Item::ExportStar { spec }
      | Item::ImportEquals { spec }
      | Item::ImportDefer { spec } => imps.push(Imp {
        spec,
        kind: "es",
        is_dynamic: false,
        attr: None,
        types: None,
        side_effect: false,
        type_only: false,
      }),
      Item::ImportSource { spec } => imps.push(Imp {
        spec,
        kind: "esSource",
        is_dynamic: false,
        attr: None,
        types: None,
        side_effect: false,
        type_only: false,
      }),
      Item::ImportType { spec }
      | Item::ExportType { spec }
      | Item::ImportTypeExpr { spec } => {
        if include_types {
          imps.push(Imp {
            spec,
            kind: "tsType",
            is_dynamic: false,
            attr: None,
            types: None,
            side_effect: false,
            type_only: true,
          })
        }
      }
      Item::DeclareModule { spec } => {
        if include_types {
          imps.push(Imp {
            spec,
            kind: "tsModuleAugmentation",
            is_dynamic: false,
            attr: None,
            types: None,
            side_effect: false,
            type_only: true,
          })
        }
      }
      Item::Dynamic { spec, attr, types } => imps.push(Imp {
        spec,
        kind: "es",
        is_dynamic: true,
        attr: attr.as_deref(),
        types: types.as_deref(),
        side_effect: false,
        type_only: false,
      }),
      Item::Require { spec } => imps.push(Imp {
        spec,
        kind: "require",
        is_dynamic: true,
        attr: None,
        types: None,
        side_effect: false,
        type_only: false,
      }),
      _ => {}
    }
  }
  fill(&mut m, &imps, specifier, mt, kind, opts);
  m
}

fn fill(
  m: &mut ExpModule,
  imps: &[Imp],
  specifier: &ModuleSpecifier,
  mt: MediaType,
  kind: GraphKind,
  opts: &Opts,
) {
  let include_types = kind.include_types();
  // bookkeeping of which entries existed before the ES pass (their asset
  // flags must consider every import of the text)
  for imp in imps {
    let r = |t: &str| resolve(t, specifier, opts);
    let d = m.deps.entry(imp.spec.to_string()).or_default();
    if d.attr.is_none() {
      d.attr = imp.attr.map(|s| s.to_string());
    }
    if let Some(t) = imp.types {
      if include_types && d.ty.is_none() {
        d.ty = Some(r(t));
      }
    }
    if imp.type_only {
      if d.ty.is_none() {
        d.ty = Some(r(imp.spec));
      }
    } else if !mt.is_declaration() {
      if d.code.is_none() {
        d.code = Some(r(imp.spec));
        d.is_dynamic = imp.is_dynamic;
      } else {
        d.is_dynamic = d.is_dynamic && imp.is_dynamic;
      }
    }
    if include_types && d.ty.is_none() {
      let tr = r(imp.spec);
      let side_effect_error = imp.side_effect && tr == Res::Err;
      if !side_effect_error && tr.ok() != d.code().ok() {
        d.ty = Some(tr);
      }
    }
    d.kinds.push(imp.kind);
    let asset = matches!(imp.attr, Some("text" | "bytes" | "css"))
      || imp.kind == "esSource";
    d.asset_flags.push(asset);
    if imp.kind == "esSource" {
      d.has_source_phase = true;
    }
  }
  // module augmentations without a type target induce no dependency in
  // typed modules
  if mt.is_typed() {
    m.deps.retain(|_, d| {
      if d.ty().ok().is_some() {
        return true;
      }
      let keep: Vec<bool> =
        d.kinds.iter().map(|k| *k != "tsModuleAugmentation").collect();
      let mut i = 0;
      d.kinds.retain(|_| {
        i += 1;
        keep[i - 1]
      });
      let mut j = 0;
      d.asset_flags.retain(|_| {
        j += 1;
        keep[j - 1]
      });
      !d.kinds.is_empty()
    });
  }
}

/// What the *built* graph records (A.4): kind- and option-dependent pruning.
pub fn as_recorded(mut m: ExpModule, mt: MediaType, opts: &Opts) -> ExpModule {
  let kind = opts.graph_kind();
  if kind == GraphKind::TypesOnly && m.types_dep.is_some() && !matches!(mt, MediaType::Wasm) {
    m.deps.clear();
  }
  if !kind.include_types() {
    m.types_dep = None;
  }
  for d in m.deps.values_mut() {
    if d.is_dynamic && opts.skip_dynamic_deps {
      continue;
    }
    if !(kind.include_code() || d.ty() == Res::None) {
      d.code = None;
    }
    if !kind.include_types() {
      d.ty = None;
    }
  }
  m
}
