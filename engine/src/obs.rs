//! Observation helpers over the public API of `ModuleGraph`.

use deno_graph::{Module, ModuleError, ModuleGraph, Resolution};
use std::collections::{BTreeMap, BTreeSet};

pub fn module_kind(m: &Module) -> &'static str {
  match m {
    Module::Js(_) => "js",
    Module::Json(_) => "json",
    Module::Wasm(_) => "wasm",
    Module::Npm(_) => "npm",
    Module::Node(_) => "node",
    Module::External(_) => "external",
  }
}

pub fn graph_json(g: &ModuleGraph) -> serde_json::Value {
  serde_json::to_value(g).expect("graph serialises")
}

/// specifier -> "module:<kind>" | "error:<display>" for every slot entry
/// (pending slots show up through the serialised form only).
pub fn entries(g: &ModuleGraph, with_range: bool) -> BTreeMap<String, String> {
  let mut out = BTreeMap::new();
  for m in g.modules() {
    out.insert(
      m.specifier().to_string(),
      format!("module:{}", module_kind(m)),
    );
  }
  for e in g.module_errors() {
    out.insert(e.specifier().to_string(), render_err(e, with_range));
  }
  out
}

pub fn render_err(e: &ModuleError, with_range: bool) -> String {
  if with_range {
    format!("error:{}", e.to_string_with_range())
  } else {
    format!("error:{}", e)
  }
}

pub fn redirects(g: &ModuleGraph) -> BTreeMap<String, String> {
  g.redirects
    .iter()
    .map(|(a, b)| (a.to_string(), b.to_string()))
    .collect()
}

pub fn resolution_str(r: &Resolution, with_range: bool) -> String {
  match r {
    Resolution::None => "none".to_string(),
    Resolution::Ok(ok) => {
      if with_range {
        format!("ok:{}@{}", ok.specifier, ok.range)
      } else {
        format!("ok:{}", ok.specifier)
      }
    }
    Resolution::Err(e) => {
      if with_range {
        format!("err:{}", e.to_string_with_range())
      } else {
        format!("err:{}", e)
      }
    }
  }
}

/// (referrer, specifier text, code resolution, is_dynamic) for every
/// dependency that has a code resolution.
pub fn code_edges(g: &ModuleGraph) -> BTreeSet<(String, String, String, bool)> {
  let mut out = BTreeSet::new();
  for m in g.modules() {
    for (text, dep) in m.dependencies() {
      if !dep.maybe_code.is_none() {
        out.insert((
          m.specifier().to_string(),
          text.clone(),
          resolution_str(&dep.maybe_code, true),
          dep.is_dynamic,
        ));
      }
    }
  }
  out
}

pub fn has_internal_error(v: &serde_json::Value) -> bool {
  match v {
    serde_json::Value::String(s) => s.contains("[INTERNAL ERROR]"),
    serde_json::Value::Array(a) => a.iter().any(has_internal_error),
    serde_json::Value::Object(o) => o.values().any(has_internal_error),
    _ => false,
  }
}

pub fn diff_maps<V: PartialEq + std::fmt::Debug>(
  a: &BTreeMap<String, V>,
  b: &BTreeMap<String, V>,
  an: &str,
  bn: &str,
) -> Vec<String> {
  let mut out = Vec::new();
  for (k, v) in a {
    match b.get(k) {
      None => out.push(format!("{k}: only in {an}: {v:?}")),
      Some(w) if w != v => out.push(format!("{k}: {an}={v:?} {bn}={w:?}")),
      _ => {}
    }
  }
  for (k, v) in b {
    if !a.contains_key(k) {
      out.push(format!("{k}: only in {bn}: {v:?}"));
    }
  }
  out
}

/// Media type the loader's answer for `spec` has (by headers, else URL),
/// following the world's own aliases. `None` when the world serves no module.
pub fn served_media_type(
  world: &crate::world::World,
  spec: &str,
) -> Option<deno_graph::MediaType> {
  use crate::world::Entry;
  let mut key = spec.to_string();
  for _ in 0..4 {
    match world.entries.get(&key) {
      Some(Entry::Alias { to }) => key = to.clone(),
      _ => break,
    }
  }
  let url = url::Url::parse(&key).ok()?;
  let headers: Option<std::collections::HashMap<String, String>> =
    match world.entries.get(&key)? {
      Entry::Src { headers, .. } | Entry::Text { headers, .. } => {
        Some(headers.iter().cloned().collect())
      }
      Entry::Wasm { .. } => None,
      _ => return None,
    };
  let (mt, _) = deno_graph::source::resolve_media_type_and_charset_from_headers(
    &url,
    headers.as_ref(),
  );
  Some(mt)
}

/// Whether accepting the loader's answer for `spec` as a module depends on
/// the context of the first request (root / dynamic branch / attribute):
/// unknown media types are JavaScript only for roots, JSON is a module only
/// for roots, in dynamic branches or under `type: "json"`.
pub fn acceptance_is_context_sensitive(
  world: &crate::world::World,
  spec: &str,
) -> Option<&'static str> {
  match served_media_type(world, spec)? {
    deno_graph::MediaType::Unknown => Some("unknown"),
    deno_graph::MediaType::Json => {
      // JSON that every importer requests with `type: "json"` is a module
      // in every context
      let mut key = spec.to_string();
      for _ in 0..4 {
        match world.entries.get(&key) {
          Some(crate::world::Entry::Alias { to }) => key = to.clone(),
          _ => break,
        }
      }
      if crate::world::json_class_targets(world).contains(&key) {
        None
      } else {
        Some("json")
      }
    }
    _ => None,
  }
}

pub fn walk_errors(
  g: &ModuleGraph,
  roots: &[deno_graph::ModuleSpecifier],
  kind: deno_graph::GraphKind,
  follow_dynamic: bool,
) -> Vec<String> {
  let mut v: Vec<String> = g
    .walk(
      roots.iter(),
      deno_graph::WalkOptions {
        check_js: deno_graph::CheckJsOption::True,
        follow_dynamic,
        kind,
        prefer_fast_check_graph: false,
      },
    )
    .errors()
    .map(|e| e.to_string())
    .collect();
  v.sort();
  v
}

/// A specifier whose acceptance is context sensitive and that the world can
/// deliver through more than one request (it is the target of a redirect or
/// of a loader-followed alias): the entry may then be overwritten by a later
/// answer decided under another context.
pub fn context_sensitive_multi_path(
  world: &crate::world::World,
) -> Option<&'static str> {
  use crate::world::Entry;
  for e in world.entries.values() {
    if let Entry::Redirect { to } | Entry::Alias { to } = e {
      if let Some(c) = acceptance_is_context_sensitive(world, to) {
        return Some(c);
      }
    }
  }
  None
}

/// serialised module entries keyed by specifier (from `serde_json::to_value`)
pub fn serialized_modules(g: &ModuleGraph) -> BTreeMap<String, serde_json::Value> {
  let v = graph_json(g);
  let mut out = BTreeMap::new();
  if let Some(arr) = v.get("modules").and_then(|m| m.as_array()) {
    for m in arr {
      if let Some(s) = m.get("specifier").and_then(|s| s.as_str()) {
        out.insert(s.to_string(), m.clone());
      }
    }
  }
  out
}

/// Differences between two graphs restricted to `scope` (None = everything):
/// entries (kind / error text), serialised modules and redirects.
/// Returns (signature suffix, message) pairs; a divergence on a specifier
/// whose acceptance is context sensitive is reported alone, under
/// `context-sensitive-acceptance/<class>` (everything downstream of it
/// differs as a consequence).
pub fn diff_graphs(
  world: &crate::world::World,
  a: &ModuleGraph,
  b: &ModuleGraph,
  an: &str,
  bn: &str,
  scope: Option<&BTreeSet<String>>,
  compare_serialized: bool,
) -> Vec<(String, String, String)> {
  let ae = entries(a, false);
  let be = entries(b, false);
  let in_scope = |k: &String| scope.map(|s| s.contains(k)).unwrap_or(true);
  let mut out = Vec::new();
  for (k, v) in &ae {
    if !in_scope(k) {
      continue;
    }
    if let Some(w) = be.get(k) {
      if w != v {
        if let Some(class) = acceptance_is_context_sensitive(world, k) {
          return vec![(
            format!("context-sensitive-acceptance/{class}"),
            k.clone(),
            format!("{k}: {an}={v} {bn}={w}"),
          )];
        }
      }
    }
  }
  for (k, v) in &ae {
    if !in_scope(k) {
      continue;
    }
    match be.get(k) {
      None => out.push((
        format!("entry/only-in-{an}/{}", crate::props::c17::norm_state(v)),
        k.clone(),
        format!("{k}: {an} has {v}, {bn} has nothing"),
      )),
      Some(w) if w != v => out.push((
        format!(
          "entry/differs/{}/{}",
          crate::props::c17::norm_state(v),
          crate::props::c17::norm_state(w)
        ),
        k.clone(),
        format!("{k}: {an}={v} {bn}={w}"),
      )),
      _ => {}
    }
  }
  for (k, w) in &be {
    if in_scope(k) && !ae.contains_key(k) {
      out.push((
        format!("entry/only-in-{bn}/{}", crate::props::c17::norm_state(w)),
        k.clone(),
        format!("{k}: {bn} has {w}, {an} has nothing"),
      ));
    }
  }
  if compare_serialized && out.is_empty() {
    let am = serialized_modules(a);
    let bm = serialized_modules(b);
    for (k, v) in &am {
      if !in_scope(k) {
        continue;
      }
      if let Some(w) = bm.get(k) {
        if v != w {
          out.push((
            "serialized-module-differs".to_string(),
            k.clone(),
            format!("{k}:\n {an}={v}\n {bn}={w}"),
          ));
        }
      }
    }
  }
  let ar = redirects(a);
  let br = redirects(b);
  for (k, v) in &ar {
    if !in_scope(k) {
      continue;
    }
    match br.get(k) {
      None => out.push((
        format!("redirect/only-in-{an}"),
        k.clone(),
        format!("{k} -> {v} only in {an}"),
      )),
      Some(w) if w != v => out.push((
        "redirect/differs".to_string(),
        k.clone(),
        format!("{k}: {an} -> {v}, {bn} -> {w}"),
      )),
      _ => {}
    }
  }
  for (k, w) in &br {
    if in_scope(k) && !ar.contains_key(k) {
      out.push((
        format!("redirect/only-in-{bn}"),
        k.clone(),
        format!("{k} -> {w} only in {bn}"),
      ));
    }
  }
  if !out.is_empty() {
    if let Some(class) = context_sensitive_multi_path(world) {
      let first = out[0].2.clone();
      return vec![(
        format!("context-sensitive-acceptance/{class}"),
        out[0].1.clone(),
        format!("(through a redirect/alias to a context-sensitive answer) {first}"),
      )];
    }
  }
  out
}

/// Specifiers that are (redirect chains of) source-map assets of modules of `g`.
pub fn source_map_targets(g: &ModuleGraph) -> BTreeSet<String> {
  let mut out = BTreeSet::new();
  for m in g.modules() {
    if let Some(js) = m.js() {
      if let Some(s) = js
        .maybe_source_map_dependency
        .as_ref()
        .and_then(|d| d.dependency.maybe_specifier())
      {
        let mut cur = s.clone();
        out.insert(cur.to_string());
        let mut n = 0;
        while let Some(next) = g.redirects.get(&cur) {
          cur = next.clone();
          out.insert(cur.to_string());
          n += 1;
          if n > 32 {
            break;
          }
        }
      }
    }
  }
  out
}
