//! Observation helpers over the public API of `ModuleGraph`.

use deno_graph::{Module, ModuleError, ModuleGraph, Resolution};
use std::collections::{BTreeMap, BTreeSet};

pub fn module_kind(m: &Module) -> &'static str {
  match m {
    Module::Js(_) => "js",
    Module::Json(_) => "json",
    Module::Wasm(_) => "wasm",
    Module::Npm(_) => "npm",
    Module::Node(_) => "node",
    Module::External(_) => "external",
  }
}

pub fn graph_json(g: &ModuleGraph) -> serde_json::Value {
  serde_json::to_value(g).expect("graph serialises")
}

/// specifier -> "module:<kind>" | "error:<display>" for every slot entry
/// (pending slots show up through the serialised form only).
pub fn entries(g: &ModuleGraph, with_range: bool) -> BTreeMap<String, String> {
  let mut out = BTreeMap::new();
  for m in g.modules() {
    out.insert(
      m.specifier().to_string(),
      format!("module:{}", module_kind(m)),
    );
  }
  for e in g.module_errors() {
    out.insert(e.specifier().to_string(), render_err(e, with_range));
  }
  out
}

pub fn render_err(e: &ModuleError, with_range: bool) -> String {
  if with_range {
    format!("error:{}", e.to_string_with_range())
  } else {
    format!("error:{}", e)
  }
}

pub fn redirects(g: &ModuleGraph) -> BTreeMap<String, String> {
  g.redirects
    .iter()
    .map(|(a, b)| (a.to_string(), b.to_string()))
    .collect()
}

pub fn resolution_str(r: &Resolution, with_range: bool) -> String {
  match r {
    Resolution::None => "none".to_string(),
    Resolution::Ok(ok) => {
      if with_range {
        format!("ok:{}@{}", ok.specifier, ok.range)
      } else {
        format!("ok:{}", ok.specifier)
      }
    }
    Resolution::Err(e) => {
      if with_range {
        format!("err:{}", e.to_string_with_range())
      } else {
        format!("err:{}", e)
      }
    }
  }
}

/// (referrer, specifier text, code resolution, is_dynamic) for every
/// dependency that has a code resolution.
pub fn code_edges(g: &ModuleGraph) -> BTreeSet<(String, String, String, bool)> {
  let mut out = BTreeSet::new();
  for m in g.modules() {
    for (text, dep) in m.dependencies() {
      if !dep.maybe_code.is_none() {
        out.insert((
          m.specifier().to_string(),
          text.clone(),
          resolution_str(&dep.maybe_code, true),
          dep.is_dynamic,
        ));
      }
    }
  }
  out
}

pub fn has_internal_error(v: &serde_json::Value) -> bool {
  match v {
    serde_json::Value::String(s) => s.contains("[INTERNAL ERROR]"),
    serde_json::Value::Array(a) => a.iter().any(has_internal_error),
    serde_json::Value::Object(o) => o.values().any(has_internal_error),
    _ => false,
  }
}

pub fn diff_maps<V: PartialEq + std::fmt::Debug>(
  a: &BTreeMap<String, V>,
  b: &BTreeMap<String, V>,
  an: &str,
  bn: &str,
) -> Vec<String> {
  let mut out = Vec::new();
  for (k, v) in a {
    match b.get(k) {
      None => out.push(format!("{k}: only in {an}: {v:?}")),
      Some(w) if w != v => out.push(format!("{k}: {an}={v:?} {bn}={w:?}")),
      _ => {}
    }
  }
  for (k, v) in b {
    if !a.contains_key(k) {
      out.push(format!("{k}: only in {bn}: {v:?}"));
    }
  }
  out
}

/// Media type the loader's answer for `spec` has (by headers, else URL),
/// following the world's own aliases. `None` when the world serves no module.
pub fn served_media_type(
  world: &crate::world::World,
  spec: &str,
) -> Option<deno_graph::MediaType> {
  use crate::world::Entry;
  let mut key = spec.to_string();
  for _ in 0..4 {
    match world.entries.get(&key) {
      Some(Entry::Alias { to }) => key = to.clone(),
      _ => break,
    }
  }
  let url = url::Url::parse(&key).ok()?;
  let headers: Option<std::collections::HashMap<String, String>> =
    match world.entries.get(&key)? {
      Entry::Src { headers, .. } | Entry::Text { headers, .. } => {
        Some(headers.iter().cloned().collect())
      }
      Entry::Wasm { .. } => None,
      _ => return None,
    };
  let (mt, _) = deno_graph::source::resolve_media_type_and_charset_from_headers(
    &url,
    headers.as_ref(),
  );
  Some(mt)
}

/// Whether accepting the loader's answer for `spec` as a module depends on
/// the context of the first request (root / dynamic branch / attribute):
/// unknown media types are JavaScript only for roots, JSON is a module only
/// for roots, in dynamic branches or under `type: "json"`.
pub fn acceptance_is_context_sensitive(
  world: &crate::world::World,
  spec: &str,
) -> Option<&'static str> {
  match served_media_type(world, spec)? {
    deno_graph::MediaType::Unknown => Some("unknown"),
    deno_graph::MediaType::Json => Some("json"),
    _ => None,
  }
}

pub fn walk_errors(
  g: &ModuleGraph,
  roots: &[deno_graph::ModuleSpecifier],
  kind: deno_graph::GraphKind,
  follow_dynamic: bool,
) -> Vec<String> {
  let mut v: Vec<String> = g
    .walk(
      roots.iter(),
      deno_graph::WalkOptions {
        check_js: deno_graph::CheckJsOption::True,
        follow_dynamic,
        kind,
        prefer_fast_check_graph: false,
      },
    )
    .errors()
    .map(|e| e.to_string())
    .collect();
  v.sort();
  v
}

/// A specifier whose acceptance is context sensitive and that the world can
/// deliver through more than one request (it is the target of a redirect or
/// of a loader-followed alias): the entry may then be overwritten by a later
/// answer decided under another context.
pub fn context_sensitive_multi_path(
  world: &crate::world::World,
) -> Option<&'static str> {
  use crate::world::Entry;
  for e in world.entries.values() {
    if let Entry::Redirect { to } | Entry::Alias { to } = e {
      if let Some(c) = acceptance_is_context_sensitive(world, to) {
        return Some(c);
      }
    }
  }
  None
}
