//! Fast-check harness: turns a generated TypeScript package into a JSR
//! registry (or workspace members), builds the graph, runs
//! `build_fast_check_type_graph` (optionally with a recording cache) and
//! offers the AST helpers the fast-check properties share.

use crate::harness::{build_into, parse_roots, BuildEnv, Schedule, Served, WorldLoader};
use crate::registry::{self, Exports, RegFile, RegPackage, RegVersion, Registry};
use crate::tsgen::Package;
use crate::world::{Lang, Opts};
use deno_ast::swc::ast;
use deno_ast::swc::ecma_visit::{Visit, VisitWith};
use deno_ast::{MediaType, ParsedSource};
use deno_graph::fast_check::{FastCheckCache, FastCheckCacheItem, FastCheckCacheKey};
use deno_graph::{
  BuildFastCheckTypeGraphOptions, ModuleGraph, ModuleSpecifier,
  WorkspaceFastCheckOption, WorkspaceMember,
};
use std::cell::RefCell;
use std::collections::{BTreeMap, BTreeSet};
use url::Url;

pub const PKG_NAME: &str = "@s/pkg";
pub const PKG_VERSION: &str = "1.0.0";

#[derive(Default)]
pub struct MemCache {
  pub items: RefCell<BTreeMap<u64, FastCheckCacheItem>>,
  pub gets: RefCell<Vec<(u64, bool)>>,
  pub sets: RefCell<Vec<u64>>,
}

impl FastCheckCache for MemCache {
  fn get(&self, key: FastCheckCacheKey) -> Option<FastCheckCacheItem> {
    let v = self.items.borrow().get(&key.as_u64()).cloned();
    self.gets.borrow_mut().push((key.as_u64(), v.is_some()));
    v
  }
  fn set(&self, key: FastCheckCacheKey, value: FastCheckCacheItem) {
    self.sets.borrow_mut().push(key.as_u64());
    self.items.borrow_mut().insert(key.as_u64(), value);
  }
}

/// One or more generated packages as a registry. Package `i` is `@s/pkg{i}`.
pub fn registry_of(pkgs: &[&Package]) -> Registry {
  let mut reg = Registry::default();
  for (i, pkg) in pkgs.iter().enumerate() {
    let name = if i == 0 {
      PKG_NAME.to_string()
    } else {
      format!("{PKG_NAME}{i}")
    };
    let mut files = BTreeMap::new();
    for (path, text) in &pkg.files {
      files.insert(
        path.clone(),
        RegFile {
          lang: Lang::Ts,
          items: vec![],
          text: Some(text.clone()),
        },
      );
    }
    reg.packages.push(RegPackage {
      name,
      versions: vec![RegVersion {
        version: PKG_VERSION.to_string(),
        yanked: false,
        created_day: None,
        exports: Exports::Map(
          pkg
            .exports
            .iter()
            .map(|(k, v)| (k.clone(), Some(v.clone())))
            .collect(),
        ),
        files,
        module_graph: 0,
        lockfile_checksum: false,
      }],
    });
  }
  reg
}

pub fn package_base(i: usize) -> String {
  let name = if i == 0 {
    PKG_NAME.to_string()
  } else {
    format!("{PKG_NAME}{i}")
  };
  registry::package_url(&name, PKG_VERSION)
}

/// Builds the graph for the packages as JSR packages imported by a root.
pub fn build_jsr_graph(pkgs: &[&Package]) -> ModuleGraph {
  build_jsr_graph_with(pkgs, 0)
}

/// `skip_mask`: bit i set = the root module does not import package i itself
/// (it is then in the graph only if another package depends on it)
pub fn build_jsr_graph_with(pkgs: &[&Package], skip_mask: u8) -> ModuleGraph {
  let reg = registry_of(pkgs);
  let mat = registry::materialize(&reg, false);
  let mut served = mat.served;
  let mut main = String::new();
  for (i, pkg) in pkgs.iter().enumerate() {
    let name = if i == 0 {
      PKG_NAME.to_string()
    } else {
      format!("{PKG_NAME}{i}")
    };
    if i < 8 && skip_mask & (1 << i) != 0 {
      continue;
    }
    for (k, _) in &pkg.exports {
      let sub = k.trim_start_matches('.');
      main.push_str(&format!("import \"jsr:{name}@{PKG_VERSION}{sub}\";\n"));
    }
  }
  if main.is_empty() {
    main.push_str("export {};\n");
  }
  let root = Url::parse("file:///main.ts").unwrap();
  served.insert(
    root.clone(),
    Served::Module {
      bytes: main.into_bytes().into(),
      headers: None,
      final_spec: root,
    },
  );
  let loader = WorldLoader::new(served);
  let opts = Opts::default();
  let mut graph = ModuleGraph::new(opts.graph_kind());
  build_into(
    &mut graph,
    parse_roots(&["file:///main.ts".to_string()]),
    vec![],
    BuildEnv {
      loader: &loader,
      opts: &opts,
      locker: None,
      npm: None,
      jsr_version_resolver: None,
      prefer_cached: false,
    },
    &Schedule::default(),
    false,
  )
  .expect("ungated build");
  graph
}

/// Builds the graph for one package as a workspace member under
/// `file:///ws/`, returning the member description.
pub fn build_workspace_graph(pkg: &Package) -> (ModuleGraph, Vec<WorkspaceMember>) {
  let mut served = BTreeMap::new();
  let base = Url::parse("file:///ws/").unwrap();
  let mut roots = Vec::new();
  for (path, text) in &pkg.files {
    let u = base.join(path.trim_start_matches('/')).unwrap();
    served.insert(
      u.clone(),
      Served::Module {
        bytes: text.clone().into_bytes().into(),
        headers: None,
        final_spec: u,
      },
    );
  }
  for (_, v) in &pkg.exports {
    roots.push(base.join(v).unwrap().to_string());
  }
  let loader = WorldLoader::new(served);
  let opts = Opts::default();
  let mut graph = ModuleGraph::new(opts.graph_kind());
  build_into(
    &mut graph,
    parse_roots(&roots),
    vec![],
    BuildEnv {
      loader: &loader,
      opts: &opts,
      locker: None,
      npm: None,
      jsr_version_resolver: None,
      prefer_cached: false,
    },
    &Schedule::default(),
    false,
  )
  .expect("ungated build");
  let member = WorkspaceMember {
    base,
    name: PKG_NAME.into(),
    version: Some(deno_semver::Version::parse_standard(PKG_VERSION).unwrap()),
    exports: pkg.exports.iter().cloned().collect(),
  };
  (graph, vec![member])
}

pub fn run_fast_check(
  graph: &mut ModuleGraph,
  cache: Option<&dyn FastCheckCache>,
  members: Option<&[WorkspaceMember]>,
) {
  graph.build_fast_check_type_graph(BuildFastCheckTypeGraphOptions {
    fast_check_cache: cache,
    fast_check_dts: false,
    jsr_url_provider: Default::default(),
    es_parser: None,
    resolver: None,
    workspace_fast_check: match members {
      Some(m) => WorkspaceFastCheckOption::Enabled(m),
      None => WorkspaceFastCheckOption::Disabled,
    },
  });
}

pub fn parse(
  specifier: &ModuleSpecifier,
  text: &str,
  media_type: MediaType,
) -> Result<ParsedSource, String> {
  deno_ast::parse_module(deno_ast::ParseParams {
    specifier: specifier.clone(),
    text: text.into(),
    media_type,
    capture_tokens: false,
    scope_analysis: true,
    maybe_syntax: None,
  })
  .map_err(|e| e.to_string())
}

/// Names bound at module level: declarations and import locals.
pub fn top_level_bindings(p: &ParsedSource) -> BTreeSet<String> {
  let mut out = BTreeSet::new();
  let program = p.program_ref();
  let module = match program {
    deno_ast::ProgramRef::Module(m) => m,
    _ => return out,
  };
  for item in &module.body {
    match item {
      ast::ModuleItem::ModuleDecl(md) => match md {
        ast::ModuleDecl::Import(i) => {
          for s in &i.specifiers {
            match s {
              ast::ImportSpecifier::Named(n) => out.insert(n.local.sym.to_string()),
              ast::ImportSpecifier::Default(n) => out.insert(n.local.sym.to_string()),
              ast::ImportSpecifier::Namespace(n) => out.insert(n.local.sym.to_string()),
            };
          }
        }
        ast::ModuleDecl::ExportDecl(e) => decl_names(&e.decl, &mut out),
        ast::ModuleDecl::ExportDefaultDecl(e) => match &e.decl {
          ast::DefaultDecl::Class(c) => {
            if let Some(i) = &c.ident {
              out.insert(i.sym.to_string());
            }
          }
          ast::DefaultDecl::Fn(f) => {
            if let Some(i) = &f.ident {
              out.insert(i.sym.to_string());
            }
          }
          ast::DefaultDecl::TsInterfaceDecl(i) => {
            out.insert(i.id.sym.to_string());
          }
        },
        ast::ModuleDecl::TsImportEquals(i) => {
          out.insert(i.id.sym.to_string());
        }
        _ => {}
      },
      ast::ModuleItem::Stmt(ast::Stmt::Decl(d)) => decl_names(d, &mut out),
      _ => {}
    }
  }
  out
}

pub fn decl_names(d: &ast::Decl, out: &mut BTreeSet<String>) {
  match d {
    ast::Decl::Class(c) => {
      out.insert(c.ident.sym.to_string());
    }
    ast::Decl::Fn(f) => {
      out.insert(f.ident.sym.to_string());
    }
    ast::Decl::Var(v) => {
      for d in &v.decls {
        if let ast::Pat::Ident(i) = &d.name {
          out.insert(i.id.sym.to_string());
        }
      }
    }
    ast::Decl::Using(_) => {}
    ast::Decl::TsInterface(i) => {
      out.insert(i.id.sym.to_string());
    }
    ast::Decl::TsTypeAlias(t) => {
      out.insert(t.id.sym.to_string());
    }
    ast::Decl::TsEnum(e) => {
      out.insert(e.id.sym.to_string());
    }
    ast::Decl::TsModule(m) => {
      if let ast::TsModuleName::Ident(i) = &m.id {
        out.insert(i.sym.to_string());
      }
    }
  }
}

/// Identifiers the resolver left unbound (by name).
pub fn unresolved_idents(p: &ParsedSource) -> BTreeSet<String> {
  struct V {
    ctxt: deno_ast::swc::common::SyntaxContext,
    out: BTreeSet<String>,
  }
  impl Visit for V {
    fn visit_ident(&mut self, i: &ast::Ident) {
      if i.ctxt == self.ctxt {
        self.out.insert(i.sym.to_string());
      }
    }
  }
  let mut v = V {
    ctxt: p.unresolved_context(),
    out: BTreeSet::new(),
  };
  p.program_ref().visit_with(&mut v);
  v.out
}

#[derive(Debug, Default, Clone, PartialEq, Eq)]
pub struct ExportSet {
  /// exported names (own declarations, named re-exports, `default`, `* as`)
  pub names: BTreeSet<String>,
  /// `export * from` specifiers
  pub stars: Vec<String>,
  /// (exported name, kind) for own exported declarations
  pub kinds: BTreeMap<String, &'static str>,
  /// `export { orig as name } from "src"`: (name, orig, src) - also in `names`
  pub indirect: Vec<(String, String, String)>,
}

pub fn decl_kind(d: &ast::Decl) -> &'static str {
  match d {
    ast::Decl::Class(_) => "class",
    ast::Decl::Fn(_) => "function",
    ast::Decl::Var(_) => "var",
    ast::Decl::Using(_) => "using",
    ast::Decl::TsInterface(_) => "interface",
    ast::Decl::TsTypeAlias(_) => "type",
    ast::Decl::TsEnum(_) => "enum",
    ast::Decl::TsModule(_) => "namespace",
  }
}

pub fn export_set(p: &ParsedSource) -> ExportSet {
  let mut out = ExportSet::default();
  let deno_ast::ProgramRef::Module(module) = p.program_ref() else {
    return out;
  };
  for item in &module.body {
    let ast::ModuleItem::ModuleDecl(md) = item else { continue };
    match md {
      ast::ModuleDecl::ExportDecl(e) => {
        let mut names = BTreeSet::new();
        decl_names(&e.decl, &mut names);
        for n in names {
          out.kinds.insert(n.clone(), decl_kind(&e.decl));
          out.names.insert(n);
        }
      }
      ast::ModuleDecl::ExportNamed(n) => {
        let from = n.src.as_ref().map(|s| s.value.to_string_lossy().to_string());
        for s in &n.specifiers {
          match s {
            ast::ExportSpecifier::Named(n) => {
              let text = |m: &ast::ModuleExportName| match m {
                ast::ModuleExportName::Ident(i) => i.sym.to_string(),
                ast::ModuleExportName::Str(s) => s.value.to_string_lossy().to_string(),
              };
              let name = n.exported.as_ref().unwrap_or(&n.orig);
              if let Some(from) = &from {
                out.indirect.push((text(name), text(&n.orig), from.clone()));
              }
              out.names.insert(text(name));
            }
            ast::ExportSpecifier::Namespace(n) => {
              out.names.insert(match &n.name {
                ast::ModuleExportName::Ident(i) => i.sym.to_string(),
                ast::ModuleExportName::Str(s) => s.value.to_string_lossy().to_string(),
              });
            }
            ast::ExportSpecifier::Default(d) => {
              out.names.insert(d.exported.sym.to_string());
            }
          }
        }
      }
      ast::ModuleDecl::ExportDefaultDecl(_) | ast::ModuleDecl::ExportDefaultExpr(_) => {
        out.names.insert("default".to_string());
      }
      ast::ModuleDecl::ExportAll(a) => {
        out.stars.push(a.src.value.to_string_lossy().to_string());
      }
      _ => {}
    }
  }
  out.stars.sort();
  out
}

pub fn dump(graph: &ModuleGraph) -> String {
  let mut s = String::new();
  for m in graph.modules() {
    if let Some(js) = m.js() {
      match &js.fast_check {
        None => {}
        Some(deno_graph::FastCheckTypeModuleSlot::Module(fc)) => {
          s.push_str(&format!("=== {} (emitted)\n{}\n", js.specifier, fc.source));
        }
        Some(deno_graph::FastCheckTypeModuleSlot::Error(d)) => {
          s.push_str(&format!(
            "=== {} (diagnostics)\n{}\n",
            js.specifier,
            d.iter().map(|x| x.to_string()).collect::<Vec<_>>().join("\n")
          ));
        }
      }
    }
  }
  s
}

/// Unbound identifiers split into those outside / inside the private members
/// of ambient (`declare`) classes, which the transform passes through as is.
pub fn unresolved_idents_split(
  p: &ParsedSource,
) -> (BTreeSet<String>, BTreeSet<String>) {
  struct V {
    ctxt: deno_ast::swc::common::SyntaxContext,
    outside: BTreeSet<String>,
    inside: BTreeSet<String>,
    in_ambient_class: bool,
    in_private_member: bool,
    ambient_module: bool,
  }
  impl Visit for V {
    fn visit_ident(&mut self, i: &ast::Ident) {
      if i.ctxt == self.ctxt {
        if self.in_private_member {
          self.inside.insert(i.sym.to_string());
        } else {
          self.outside.insert(i.sym.to_string());
        }
      }
    }
    fn visit_class_decl(&mut self, c: &ast::ClassDecl) {
      let prev = self.in_ambient_class;
      self.in_ambient_class = prev || c.declare || self.ambient_module;
      c.visit_children_with(self);
      self.in_ambient_class = prev;
    }
    fn visit_ts_module_decl(&mut self, m: &ast::TsModuleDecl) {
      let prev = self.ambient_module;
      self.ambient_module = prev || m.declare;
      m.visit_children_with(self);
      self.ambient_module = prev;
    }
    fn visit_class_member(&mut self, m: &ast::ClassMember) {
      let private = match m {
        ast::ClassMember::Constructor(c) => c.accessibility == Some(ast::Accessibility::Private),
        ast::ClassMember::Method(c) => c.accessibility == Some(ast::Accessibility::Private),
        ast::ClassMember::ClassProp(c) => c.accessibility == Some(ast::Accessibility::Private),
        ast::ClassMember::AutoAccessor(c) => c.accessibility == Some(ast::Accessibility::Private),
        _ => false,
      };
      let prev = self.in_private_member;
      self.in_private_member = prev || (private && self.in_ambient_class);
      m.visit_children_with(self);
      self.in_private_member = prev;
    }
  }
  let mut v = V {
    ctxt: p.unresolved_context(),
    outside: BTreeSet::new(),
    inside: BTreeSet::new(),
    in_ambient_class: false,
    in_private_member: false,
    ambient_module: p.media_type().is_declaration(),
  };
  p.program_ref().visit_with(&mut v);
  (v.outside, v.inside)
}
