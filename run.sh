#!/bin/sh
# usage: run.sh <PROPERTY-ID> <quick|thorough>
# Rebuilds the engine (and with it deno_graph from /repo's working tree), then
# runs the check. Exit 0 = held, 1 = VIOLATION, 2 = harness problem.
set -u
cd "$(dirname "$0")" || exit 2
ID="${1:?property id}"
TIER="${2:-quick}"
export CARGO_NET_OFFLINE=true
mkdir -p out
if ! (cd engine && cargo build --offline >../out/build.log 2>&1); then
  echo "HARNESS-ERROR: engine build failed (see /verif/out/build.log)" >&2
  tail -n 30 out/build.log >&2
  exit 2
fi
VERIF_TIER="$TIER" engine/target/debug/vp check "$ID" "$TIER"
code=$?
# thorough tier of C08 / C13: coverage-guided layer (libFuzzer) on top
if [ "$code" = 0 ] && [ "$TIER" = thorough ] && { [ "$ID" = C08 ] || [ "$ID" = C13 ]; }; then
  tools/fuzz_layer.sh "$ID" "${VP_FUZZ_RUNS:-100000}" "${VERIF_SEED:-0}"
  fcode=$?
  case "$fcode" in
    1) code=1 ;;
    3) echo "NOTE: the libFuzzer layer of $ID could not run in this environment; the proptest layers above are unaffected" >&2 ;;
  esac
fi
case "$code" in
  0|1|2) exit "$code" ;;
  *) echo "HARNESS-ERROR: vp exited with $code" >&2; exit 2 ;;
esac
